(* C02, round 4 (3), continued: along a whole two-site DMRG run with the Krylov eigensolver (plain or capped) every eigensolver
   call RETURNS, provided numiter >= 1 and numpy.linalg.norm meets its contract on the first norm call of each Lanczos run:
   the start tensors are not zero because the state is not ([starts_nz], a conclusion of Proofs/Hist4Charge.v
   dmrg2_boundary_nz: mixed-canonical form + "the state is not zero" is an invariant of the sweeps for every tol_split). *)
From Coq Require Import ZArith List Lia Bool Arith.
From PT Require Import Base.Scalar Base.Field Base.BigSum Base.Mx Model.Tensor Model.MPSOps Model.Operation Model.Krylov Model.Sweeps.
From PT Require Import Proofs.OperationEntries Proofs.KrylovLanczos Proofs.LinkFlatten Proofs.LinkSolvers Proofs.LinkSolversCap.
From PT Require Import Proofs.Hist2Solvers Proofs.Hist2SolversCap Proofs.Hist4Charge Proofs.Hist4Returns.
Import ListNotations.
Open Scope nat_scope.

Section RetRun.
  Variable F : ofield.
  Notation K := (Cx F).
  Variable dnorm : list K -> F.
  Variable small : F -> bool.
  Variable deigh : list F -> list F -> list F * list (list F).
  Variable numiter : nat.
  Variable Hs : list (osite K).
  Variable d : nat.
  Hypothesis Hd : 0 < d.
  Hypothesis Hm : 1 <= numiter.

  (* numpy.linalg.norm's contract on the first norm call (norm of the flattened start tensor) of every eigensolver call *)
  Definition eig2_norm_ok (t : tcall K) : Prop :=
    match c_kind (t_call t), t_envs t, t_ten t with
    | EIG2, [BL; BR], [Am] =>
        norm_ok F (site_vec F (length Am) (sdl Am) (sdr Am) Am, dnorm (site_vec F (length Am) (sdl Am) (sdr Am) Am))
    | _, _, _ => True
    end.
  Definition eig2_returns (t : tcall K) : Prop :=
    match c_kind (t_call t), t_envs t, t_ten t with
    | EIG2, [BL; BR], [Am] =>
        keig_lanczos_returns F dnorm small deigh numiter BL BR (Sweeps2Inv.Hm Hs (c_site (t_call t))) Am /\
        keig_lanczos_cap_returns F dnorm small deigh numiter BL BR (Sweeps2Inv.Hm Hs (c_site (t_call t))) Am
    | _, _, _ => True
    end.

  Theorem eig2_calls_return (tr : list (tcall K)) :
    starts_nz F d tr -> Forall eig2_norm_ok tr -> Forall eig2_returns tr.
  Proof.
    induction tr as [|t tr IH]; intros Hst Hn; [constructor|].
    destruct Hst as [H1 H2]. inversion Hn as [|? ? Hn1 Hn2]; subst. constructor; [|exact (IH H2 Hn2)].
    unfold eig2_start_nz in H1. unfold eig2_norm_ok in Hn1. unfold eig2_returns.
    destruct (c_kind (t_call t)); try exact I.
    destruct (t_envs t) as [|BL [|BR [|? ?]]]; try exact I. destruct (t_ten t) as [|Am [|? ?]]; try exact I.
    destruct H1 as [Hok Hnz].
    assert (Hu : uniform F Am).
    { assert (Hdd : 0 < d * d) by (apply Nat.mul_pos_pos; exact Hd). destruct Hok as [El Hk]. split; [lia|]. rewrite El. split; [exact El|exact Hk]. }
    split.
    - apply (keig_returns_iff F dnorm small deigh numiter); [exact Hu|exact Hn1|split; assumption].
    - apply (keig_cap_returns_iff F dnorm small deigh numiter); [exact Hu|exact Hn1|split; assumption].
  Qed.
End RetRun.
