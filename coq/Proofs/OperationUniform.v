(* C04 — the theorems of OperationSpecs / OperationLocal specialised to a uniform physical dimension d and
   to the boolean shape predicates of Model/Tensor.v (the form quoted in Properties/C04.v). *)
From Coq Require Import Arith List Lia Ring Setoid Morphisms Bool.
From PT Require Import Base.Scalar Base.BigSum Base.Mx Model.Tensor Model.Operation
  Proofs.OperationSums Proofs.OperationEntries Proofs.OperationChains Proofs.OperationTransfer
  Proofs.OperationSpecs Proofs.OperationLocal.
Import ListNotations.

Section Uniform.
  Variable R : cring.
  Infix "*" := (kmul R).
  Notation site := (site R).
  Notation osite := (osite R).
  Notation cj := (kconj R).

  (* bond profile Ds = [D_0; ...; D_L] of a complete MPS / MPO: shapes fit, D_0 = D_L = 1 *)
  Definition mps_shapeb (d : nat) (Ds : list nat) (As : list site) : bool :=
    Nat.ltb 0 d && negb (Nat.eqb (length As) 0) && chain_shape d Ds As && Nat.eqb (hd 0 Ds) 1 && Nat.eqb (last Ds 0) 1.
  Definition mpo_shapeb (d : nat) (Ds : list nat) (Ws : list osite) : bool :=
    Nat.ltb 0 d && negb (Nat.eqb (length Ws) 0) && ochain_shape d Ds Ws && Nat.eqb (hd 0 Ds) 1 && Nat.eqb (last Ds 0) 1
    && forallb (Nat.ltb 0) Ds.
  (* right part of a chain: bond profile Dr :: Ds, trailing dimension 1 (may be empty) *)
  Definition rpart_shapeb (d : nat) (Ds : list nat) (As : list site) : bool :=
    chain_shape d Ds As && Nat.eqb (last Ds 0) 1.
  Definition orpart_shapeb (d : nat) (Ds : list nat) (Ws : list osite) : bool :=
    ochain_shape d Ds Ws && Nat.eqb (last Ds 0) 1 && forallb (Nat.ltb 0) Ds.
  (* left part: leading dimension 1 (may be empty) *)
  Definition lpart_shapeb (d : nat) (Ds : list nat) (As : list site) : bool :=
    chain_shape d Ds As && Nat.eqb (hd 0 Ds) 1.
  Definition olpart_shapeb (d : nat) (Ds : list nat) (Ws : list osite) : bool :=
    ochain_shape d Ds Ws && Nat.eqb (hd 0 Ds) 1 && forallb (Nat.ltb 0) Ds.

  Lemma mps_shapeb_ok d Ds (As : list site) : mps_shapeb d Ds As = true ->
    0 < d /\ As <> [] /\ chain_ok (repeat d (length As)) Ds As /\ hd 0 Ds = 1.
  Proof.
    unfold mps_shapeb. rewrite !andb_true_iff, negb_true_iff, !Nat.eqb_eq, Nat.ltb_lt, Nat.eqb_neq.
    intros ((((H1 & H2) & H3) & H4) & H5). split; [exact H1|]. split; [destruct As; simpl in *; congruence|].
    split; [apply chain_shape_ok; assumption|exact H4].
  Qed.
  Lemma mpo_shapeb_ok d Ds (Ws : list osite) : mpo_shapeb d Ds Ws = true ->
    0 < d /\ Ws <> [] /\ ochain_ok (repeat d (length Ws)) Ds Ws /\ hd 0 Ds = 1.
  Proof.
    unfold mpo_shapeb. rewrite !andb_true_iff, negb_true_iff, !Nat.eqb_eq, Nat.ltb_lt, Nat.eqb_neq.
    intros (((((H1 & H2) & H3) & H4) & H5) & H6). split; [exact H1|]. split; [destruct Ws; simpl in *; congruence|].
    split; [apply ochain_shape_ok; assumption|exact H4].
  Qed.

  Lemma chain_shape_okx d Ds (As : list site) : 0 < d -> chain_shape d Ds As = true -> chainx_ok (repeat d (length As)) Ds As.
  Proof.
    intros Hd. revert Ds. induction As as [|A As IH]; intros Ds H.
    - destruct Ds as [|D [|? ?]]; simpl in H; try discriminate. exact I.
    - destruct Ds as [|Dl [|Dr Ds]]; simpl in H; try discriminate.
      apply andb_true_iff in H. destruct H as [H1 H2]. cbn [length repeat].
      split; [exact Hd|]. split; [apply site_shape_ok; exact H1|]. apply IH. exact H2.
  Qed.
  Lemma ochain_shape_okx d Ds (Ws : list osite) : 0 < d -> ochain_shape d Ds Ws = true -> forallb (Nat.ltb 0) Ds = true ->
    ochainx_ok (repeat d (length Ws)) Ds Ws.
  Proof.
    intros Hd. revert Ds. induction Ws as [|W Ws IH]; intros Ds H Hp.
    - destruct Ds as [|D [|? ?]]; simpl in H; try discriminate. exact I.
    - destruct Ds as [|Dl [|Dr Ds]]; simpl in H; try discriminate.
      apply andb_true_iff in H. destruct H as [H1 H2]. cbn [length repeat].
      cbn [forallb] in Hp. apply andb_true_iff in Hp. destruct Hp as [_ Hp].
      assert (HDr : 0 < Dr). { cbn [forallb] in Hp. apply andb_true_iff in Hp. destruct Hp as [Hp _]. apply Nat.ltb_lt. exact Hp. }
      split; [exact Hd|]. split; [exact HDr|]. split; [apply osite_shape_ok; exact H1|]. apply IH; assumption.
  Qed.

  Lemma words_glue d i j : gwords (repeat d i ++ d :: repeat d j) = words d (i + S j).
  Proof.
    rewrite <- gwords_repeat. f_equal. change (d :: repeat d j) with (repeat d (S j)). symmetry. apply repeat_app.
  Qed.

  Theorem vdot_spec_u (chi psi : mps R) d Dchi Dpsi :
    mps_shapeb d Dpsi (m_A psi) = true -> mps_shapeb d Dchi (m_A chi) = true -> length (m_A chi) = length (m_A psi) ->
    vdot chi psi = Some (suml (words d (length (m_A psi))) (fun w => cj (amp (m_A chi) w) * amp (m_A psi) w)).
  Proof.
    intros Hp Hc Hl. apply mps_shapeb_ok in Hp. apply mps_shapeb_ok in Hc.
    destruct Hp as (Hd & Hne & HA & h1). destruct Hc as (_ & _ & HB & h2). rewrite Hl in HB.
    unfold vdot. rewrite <- gwords_repeat. apply (vdot_sites_spec R _ Dpsi Dchi); assumption.
  Qed.

  Theorem norm_spec_u (psi : mps R) d Dpsi re dsqrt :
    mps_shapeb d Dpsi (m_A psi) = true ->
    norm re dsqrt psi = Some (dsqrt (re (suml (words d (length (m_A psi))) (fun w => cj (amp (m_A psi) w) * amp (m_A psi) w)))).
  Proof.
    intros Hp. unfold norm. rewrite (vdot_spec_u psi psi d Dpsi Dpsi) by auto. reflexivity.
  Qed.

  Theorem operator_inner_product_spec_u (chi : mps R) (op : mpo R) (psi : mps R) d Dchi Dop Dpsi :
    mps_shapeb d Dpsi (m_A psi) = true -> mps_shapeb d Dchi (m_A chi) = true -> mpo_shapeb d Dop (o_A op) = true ->
    length (m_A chi) = length (m_A psi) -> length (o_A op) = length (m_A psi) ->
    operator_inner_product chi op psi =
    Some (suml (words d (length (m_A psi))) (fun w => suml (words d (length (m_A psi))) (fun w' =>
      cj (amp (m_A chi) w) * opamp (o_A op) w w' * amp (m_A psi) w'))).
  Proof.
    intros Hp Hc Ho Hl1 Hl2. apply mps_shapeb_ok in Hp. apply mps_shapeb_ok in Hc. apply mpo_shapeb_ok in Ho.
    destruct Hp as (Hd & Hne & HA & h1). destruct Hc as (_ & _ & HB & h2). destruct Ho as (_ & _ & HW & h3).
    rewrite Hl1 in HB. rewrite Hl2 in HW.
    unfold operator_inner_product. rewrite <- gwords_repeat.
    apply (operator_inner_product_sites_spec R _ Dpsi Dchi Dop); assumption.
  Qed.

  Theorem operator_average_spec_u (psi : mps R) (op : mpo R) d Dop Dpsi :
    mps_shapeb d Dpsi (m_A psi) = true -> mpo_shapeb d Dop (o_A op) = true -> length (o_A op) = length (m_A psi) ->
    operator_average psi op =
    Some (suml (words d (length (m_A psi))) (fun w => suml (words d (length (m_A psi))) (fun w' =>
      cj (amp (m_A psi) w) * opamp (o_A op) w w' * amp (m_A psi) w'))).
  Proof.
    intros Hp Ho Hl2. apply mps_shapeb_ok in Hp. apply mpo_shapeb_ok in Ho.
    destruct Hp as (Hd & Hne & HA & h1). destruct Ho as (_ & _ & HW & h3). rewrite Hl2 in HW.
    unfold operator_average. rewrite <- gwords_repeat.
    apply (operator_average_sites_spec R _ Dpsi Dop); assumption.
  Qed.

  Theorem density_average_spec_u (rho op : mpo R) d Drho Dop :
    mpo_shapeb d Drho (o_A rho) = true -> mpo_shapeb d Dop (o_A op) = true -> length (o_A op) = length (o_A rho) ->
    operator_density_average rho op =
    Some (suml (words d (length (o_A rho))) (fun w => suml (words d (length (o_A rho))) (fun w' =>
      opamp (o_A op) w w' * opamp (o_A rho) w' w))).
  Proof.
    intros Hr Ho Hl2. apply mpo_shapeb_ok in Hr. apply mpo_shapeb_ok in Ho.
    destruct Hr as (Hd & Hne & HA & h1). destruct Ho as (_ & _ & HW & h3). rewrite Hl2 in HW.
    unfold operator_density_average. rewrite <- gwords_repeat.
    apply (operator_density_average_sites_spec R _ Drho Dop); assumption.
  Qed.

  (* hypotheses of the local problems: left parts Al Bl Wl (sites < i), local tensors, right parts (sites > i) *)
  Definition local_shapeb (d : nat) (Al Ar Bl Br : list site) (Wl Wr : list osite) (X Y : site) (W : osite)
      (DsAl DsBl DsWl : list nat) (Dar Dbr Dwr : nat) (DsAr DsBr DsWr : list nat) : bool :=
    Nat.ltb 0 d && Nat.eqb (length Bl) (length Al) && Nat.eqb (length Wl) (length Al)
    && Nat.eqb (length Br) (length Ar) && Nat.eqb (length Wr) (length Ar)
    && lpart_shapeb d DsAl Al && lpart_shapeb d DsBl Bl && olpart_shapeb d DsWl Wl
    && site_shape d (last DsAl 0) Dar X && site_shape d (last DsBl 0) Dbr Y && osite_shape d (last DsWl 0) Dwr W
    && rpart_shapeb d (Dar :: DsAr) Ar && rpart_shapeb d (Dbr :: DsBr) Br && orpart_shapeb d (Dwr :: DsWr) Wr.

  Lemma local_shapeb_ok d Al Ar Bl Br Wl Wr X Y W DsAl DsBl DsWl Dar Dbr Dwr DsAr DsBr DsWr :
    local_shapeb d Al Ar Bl Br Wl Wr X Y W DsAl DsBl DsWl Dar Dbr Dwr DsAr DsBr DsWr = true ->
    0 < d /\ 0 < Dwr /\
    chainx_ok (repeat d (length Al)) DsAl Al /\ chainx_ok (repeat d (length Al)) DsBl Bl /\
    ochainx_ok (repeat d (length Al)) DsWl Wl /\
    hd 0 DsAl = 1 /\ hd 0 DsBl = 1 /\ hd 0 DsWl = 1 /\
    site_ok d (last DsAl 0) Dar X /\ site_ok d (last DsBl 0) Dbr Y /\ osite_ok d (last DsWl 0) Dwr W /\
    chain_ok (repeat d (length Ar)) (Dar :: DsAr) Ar /\ chain_ok (repeat d (length Ar)) (Dbr :: DsBr) Br /\
    ochain_ok (repeat d (length Ar)) (Dwr :: DsWr) Wr.
  Proof.
    unfold local_shapeb, lpart_shapeb, olpart_shapeb, rpart_shapeb, orpart_shapeb.
    rewrite !andb_true_iff, !Nat.eqb_eq, Nat.ltb_lt.
    intros (((((((((((((Hd & L1) & L2) & L3) & L4) & [A1 A2]) & [B1 B2]) & [[W1 W2] W3]) & SX) & SY) & SW) & [RA1 RA2]) & [RB1 RB2]) & [[RW1 RW2] RW3]).
    split; [exact Hd|].
    assert (HDwr : 0 < Dwr). { cbn [forallb] in RW3. apply andb_true_iff in RW3. destruct RW3 as [H _]. apply Nat.ltb_lt. exact H. }
    split; [exact HDwr|].
    split; [apply chain_shape_okx; assumption|].
    split; [rewrite <- L1; apply chain_shape_okx; assumption|].
    split; [rewrite <- L2; apply ochain_shape_okx; assumption|].
    split; [exact A2|]. split; [exact B2|]. split; [exact W2|].
    split; [apply site_shape_ok; exact SX|]. split; [apply site_shape_ok; exact SY|]. split; [apply osite_shape_ok; exact SW|].
    split; [apply chain_shape_ok; assumption|].
    split; [rewrite <- L3; apply chain_shape_ok; assumption|].
    rewrite <- L4. apply ochain_shape_ok; assumption.
  Qed.

  Theorem local_hamiltonian_is_projection_u d Al Ar Bl Br Wl Wr X Y W DsAl DsBl DsWl Dar Dbr Dwr DsAr DsBr DsWr :
    local_shapeb d Al Ar Bl Br Wl Wr X Y W DsAl DsBl DsWl Dar Dbr Dwr DsAr DsBr DsWr = true ->
    let n := (length Al + S (length Ar))%nat in
    site_dot Y (apply_local_hamiltonian (lfold Al Bl Wl env_one) (rfold Ar Br Wr env_one) W X) =
    suml (words d n) (fun w => suml (words d n) (fun w' =>
      cj (amp (Bl ++ Y :: Br) w) * opamp (Wl ++ W :: Wr) w w' * amp (Al ++ X :: Ar) w')).
  Proof.
    intros H n. apply local_shapeb_ok in H.
    destruct H as (Hd & HDwr & HAl & HBl & HWl & h1 & h2 & h3 & HX & HY & HW & HAr & HBr & HWr).
    unfold n. rewrite <- words_glue.
    apply (local_hamiltonian_projection R Al Ar Bl Br Wl Wr X Y W (repeat d (length Al)) (repeat d (length Ar)) d (last DsAl 0) Dar (last DsBl 0) Dbr (last DsWl 0) Dwr
             DsAl DsBl DsWl DsAr DsBr DsWr); auto.
  Qed.

  Theorem heff_hermitian_u d Al Ar Wl Wr X Y W DsAl DsWl Dar Dwr DsAr DsWr :
    local_shapeb d Al Ar Al Ar Wl Wr X Y W DsAl DsAl DsWl Dar Dar Dwr DsAr DsAr DsWr = true ->
    let n := (length Al + S (length Ar))%nat in
    (forall w w', In w (words d n) -> In w' (words d n) ->
       opamp (Wl ++ W :: Wr) w w' = cj (opamp (Wl ++ W :: Wr) w' w)) ->
    site_dot Y (apply_local_hamiltonian (lfold Al Al Wl env_one) (rfold Ar Ar Wr env_one) W X) =
    cj (site_dot X (apply_local_hamiltonian (lfold Al Al Wl env_one) (rfold Ar Ar Wr env_one) W Y)).
  Proof.
    intros H n Hh. apply local_shapeb_ok in H.
    destruct H as (Hd & HDwr & HAl & HBl & HWl & h1 & h2 & h3 & HX & HY & HW & HAr & HBr & HWr).
    unfold n in Hh. rewrite <- words_glue in Hh.
    apply (heff_hermitian R Al Ar Wl Wr X Y W (repeat d (length Al)) (repeat d (length Ar)) d (last DsAl 0) Dar (last DsWl 0) Dwr DsAl DsWl DsAr DsWr); auto.
  Qed.

  Theorem local_bond_is_projection_u d Al Ar Bl Br Wl Wr A B W Cx Cy DsAl DsBl DsWl Dar Dbr Dwr DsAr DsBr DsWr :
    local_shapeb d Al Ar Bl Br Wl Wr A B W DsAl DsBl DsWl Dar Dbr Dwr DsAr DsBr DsWr = true ->
    nr Cx = last DsAl 0 -> nc Cx = last DsAl 0 -> nr Cy = last DsBl 0 -> nc Cy = last DsBl 0 ->
    let n := (length Al + S (length Ar))%nat in
    frob Cy (apply_local_bond_contraction (lfold Al Bl Wl env_one) (rfold (A :: Ar) (B :: Br) (W :: Wr) env_one) Cx) =
    suml (words d n) (fun w => suml (words d n) (fun w' =>
      cj (amp (Bl ++ cmul_site Cy B :: Br) w) * opamp (Wl ++ W :: Wr) w w' * amp (Al ++ cmul_site Cx A :: Ar) w')).
  Proof.
    intros H c1 c2 c3 c4 n. apply local_shapeb_ok in H.
    destruct H as (Hd & HDwr & HAl & HBl & HWl & h1 & h2 & h3 & HX & HY & HW & HAr & HBr & HWr).
    unfold n. rewrite <- words_glue.
    apply (local_bond_projection R Al Ar Bl Br Wl Wr A B W Cx Cy (repeat d (length Al)) (repeat d (length Ar)) d (last DsAl 0) Dar (last DsBl 0) Dbr (last DsWl 0) Dwr
             DsAl DsBl DsWl DsAr DsBr DsWr); auto.
  Qed.
End Uniform.

Arguments mps_shapeb {R} d Ds As. Arguments mpo_shapeb {R} d Ds Ws.
Arguments local_shapeb {R} d Al Ar Bl Br Wl Wr X Y W DsAl DsBl DsWl Dar Dbr Dwr DsAr DsBr DsWr.
