(* Weak duality between matchings and vertex covers, and the optimality certificate used by
   minimum_vertex_cover's own size assertion. *)
From Coq Require Import ZArith List Bool Lia.
From PT Require Import Model.Bipartite.
Import ListNotations.
Open Scope Z_scope.

Lemma mem_In x l : mem x l = true <-> In x l.
Proof.
  unfold mem. rewrite existsb_exists. split.
  - intros [y [Hy E]]. apply Z.eqb_eq in E. subst. exact Hy.
  - intros H. exists x. split; [exact H|apply Z.eqb_refl].
Qed.

Lemma nodupb_NoDup l : nodupb l = true -> NoDup l.
Proof.
  induction l as [|x t IH]; simpl; intros H; [constructor|].
  apply andb_true_iff in H. destruct H as [H1 H2]. constructor; [|apply IH; exact H2].
  intros Hin. apply mem_In in Hin. rewrite Hin in H1. discriminate.
Qed.

Lemma in_range_us g u : in_range (nu g) u = true -> In u (us g).
Proof.
  unfold in_range, us. rewrite andb_true_iff, Z.leb_le, Z.ltb_lt. intros [H0 H1].
  apply in_map_iff. exists (Z.to_nat u). split; [lia|]. apply in_seq. lia.
Qed.

Lemma has_edge_all_edges g u v : has_edge g u v = true -> In (u, v) (all_edges g).
Proof.
  unfold has_edge, all_edges. rewrite !andb_true_iff. intros [[Hu Hv] Hm].
  apply in_flat_map. exists u. split; [apply in_range_us; exact Hu|].
  apply in_map_iff. exists v. split; [reflexivity|apply mem_In; exact Hm].
Qed.

(* semantic reading of the boolean checkers *)
Definition Matching (g : bg) (m : list (Z * Z)) : Prop :=
  (forall p, In p m -> has_edge g (fst p) (snd p) = true) /\ NoDup (map fst m) /\ NoDup (map snd m).
Definition Cover (g : bg) (uc vc : list Z) : Prop :=
  forall u v, has_edge g u v = true -> In u uc \/ In v vc.

Lemma is_matching_Matching g m : is_matching g m = true -> Matching g m.
Proof.
  unfold is_matching, Matching. rewrite !andb_true_iff, forallb_forall. intros [[H1 H2] H3].
  repeat split; [exact H1|apply nodupb_NoDup; exact H2|apply nodupb_NoDup; exact H3].
Qed.

Lemma is_cover_Cover g uc vc : is_cover g (uc, vc) = true -> Cover g uc vc.
Proof.
  unfold is_cover, Cover. cbn [fst snd]. rewrite !andb_true_iff, !forallb_forall. intros [_ H] u v He.
  specialize (H (u, v) (has_edge_all_edges g u v He)). cbn [fst snd] in H.
  apply orb_true_iff in H. destruct H as [H|H]; [left|right]; apply mem_In; exact H.
Qed.

Section Duality.
  Variable g : bg.
  Variables (uc vc : list Z).
  Definition tag (p : Z * Z) : Z + Z := if mem (fst p) uc then inl (fst p) else inr (snd p).

  Lemma tag_in_cover m : Matching g m -> Cover g uc vc ->
    incl (map tag m) (map inl uc ++ map inr vc).
  Proof.
    intros [He _] Hc x Hx. apply in_map_iff in Hx. destruct Hx as [p [<- Hp]].
    unfold tag. destruct (mem (fst p) uc) eqn:E.
    - apply in_or_app. left. apply in_map. apply mem_In. exact E.
    - apply in_or_app. right. apply in_map.
      destruct (Hc _ _ (He p Hp)) as [H|H]; [|exact H].
      apply mem_In in H. congruence.
  Qed.

  Lemma tag_nodup m : NoDup (map fst m) -> NoDup (map snd m) -> NoDup (map tag m).
  Proof.
    induction m as [|p t IH]; simpl; intros Hf Hs; [constructor|].
    inversion Hf as [|? ? Hf1 Hf2]; inversion Hs as [|? ? Hs1 Hs2]; subst.
    constructor; [|apply IH; assumption].
    intros Hin. apply in_map_iff in Hin. destruct Hin as [q [Eq Hq]].
    unfold tag in Eq. destruct (mem (fst q) uc), (mem (fst p) uc); try discriminate; inversion Eq as [E].
    - apply Hf1. rewrite <- E. apply in_map. exact Hq.
    - apply Hs1. rewrite <- E. apply in_map. exact Hq.
  Qed.

  Lemma weak_duality_sem m : Matching g m -> Cover g uc vc -> (length m <= length uc + length vc)%nat.
  Proof.
    intros Hm Hc. pose proof (tag_in_cover m Hm Hc) as Hincl.
    destruct Hm as [_ [Hf Hs]]. pose proof (tag_nodup m Hf Hs) as Hnd.
    apply NoDup_incl_length in Hincl; [|exact Hnd].
    rewrite map_length, app_length, !map_length in Hincl. exact Hincl.
  Qed.
End Duality.

(* Every matching is no larger than every vertex cover. *)
Lemma weak_duality g m uc vc :
  is_matching g m = true -> is_cover g (uc, vc) = true -> (length m <= length uc + length vc)%nat.
Proof. intros Hm Hc. apply weak_duality_sem with (g := g); [apply is_matching_Matching|apply is_cover_Cover]; assumption. Qed.

(* The certificate: a matching and a cover of equal size are a maximum matching and a minimum cover. *)
Lemma certificate_optimal g m uc vc :
  Matching g m -> Cover g uc vc -> (length uc + length vc = length m)%nat ->
  (forall m', Matching g m' -> (length m' <= length m)%nat) /\
  (forall uc' vc', Cover g uc' vc' -> (length uc + length vc <= length uc' + length vc')%nat).
Proof.
  intros Hm Hc Hsz. split.
  - intros m' Hm'. rewrite <- Hsz. apply weak_duality_sem with (g := g); assumption.
  - intros uc' vc' Hc'. rewrite Hsz. apply weak_duality_sem with (g := g); assumption.
Qed.
