(* C13 — MPO.orthonormalize(mode='left'): the MPS specification [orth_left_spec] transported through the view
   p = s*d + t ([oview] / [ounview] of Model/Orthonormalize.v). *)
From Coq Require Import ZArith List Bool Lia Arith Ring.
From PT Require Import Base.Scalar Base.Field Base.BigSum Base.Mx Model.Tensor Model.BondOps Model.Orthonormalize.
From PT Require Import Proofs.BondOpsPerm Proofs.BondOpsLoop Proofs.BondOpsSpec Proofs.MPSOpsBase Proofs.MPSOpsShape Proofs.MPSOpsMul.
From PT Require Import Proofs.OrthDefs Proofs.OrthQRExtra Proofs.OrthGram Proofs.OrthLocal Proofs.OrthSweep Proofs.OrthTop.
Import ListNotations.

(* ---------- lists of equal-length rows ---------- *)
Lemma nth_concat_uniform {A} (dflt : A) d : forall (W : list (list A)) s t,
  (forall r, In r W -> length r = d) -> s < length W -> t < d ->
  nth (s * d + t) (concat W) dflt = nth t (nth s W []) dflt.
Proof.
  induction W as [|r W IH]; intros s t H Hs Ht; [simpl in Hs; lia|].
  assert (Hr : length r = d) by (apply H; left; reflexivity).
  cbn [concat]. destruct s as [|s].
  - cbn [nth]. replace (0 * d + t) with t by lia. apply app_nth1. lia.
  - cbn [nth]. rewrite app_nth2 by (rewrite Hr; simpl; lia). rewrite Hr.
    replace (S s * d + t - d) with (s * d + t) by (simpl; lia).
    apply IH; [intros r' Hr'; apply H; right; exact Hr'|simpl in Hs; lia|exact Ht].
Qed.

Lemma length_concat_uniform {A} d (W : list (list A)) :
  (forall r, In r W -> length r = d) -> length (concat W) = length W * d.
Proof.
  induction W as [|r W IH]; intros H; [reflexivity|]. cbn [concat length]. rewrite app_length.
  rewrite IH by (intros r' Hr'; apply H; right; exact Hr'). rewrite (H r) by (left; reflexivity). simpl. reflexivity.
Qed.

Lemma pair_lt d s t : s < d -> t < d -> s * d + t < d * d.
Proof. intros Hs Ht. nia. Qed.

Definition pairw (d : nat) (w w' : list nat) : list nat := map (fun x => fst x * d + snd x) (combine w w').

Lemma pairw_length d w w' : length w = length w' -> length (pairw d w w') = length w.
Proof. intros H. unfold pairw. rewrite map_length, combine_length. lia. Qed.

Lemma pairw_letters d w w' : letters d w -> letters d w' -> letters (d * d) (pairw d w w').
Proof.
  unfold letters, pairw. intros Hw. revert w'. induction Hw as [|s w Hs Hw IH]; intros w' Hw'; [constructor|].
  destruct Hw' as [|t w' Ht Hw']; [constructor|]. cbn [combine map fst snd]. constructor.
  - apply pair_lt; assumption.
  - apply IH. exact Hw'.
Qed.

Lemma zget_qflat_neg qd s t : s < length qd -> t < length qd ->
  zget (qflat qd (zneg qd)) (s * length qd + t) = (zget qd s - zget qd t)%Z.
Proof.
  intros Hs Ht. unfold zget.
  assert (H := qflat_nth qd (zneg qd) s t Hs). rewrite zneg_length in H. rewrite (H Ht), zneg_nth. lia.
Qed.

Section View.
  Variable R : cring.
  Notation mx := (mx R).
  Notation site := (site R).
  Notation osite := (osite R).

  (* ---------- (1) indexing ---------- *)
  Lemma osite_shape_rows d Dl Dr (W : osite) : osite_shape d Dl Dr W = true ->
    length W = d /\ forall r, In r W -> site_shape d Dl Dr r = true.
  Proof. unfold osite_shape. rewrite andb_true_iff, Nat.eqb_eq, forallb_forall. tauto. Qed.

  Lemma osite_rows_len d Dl Dr (W : osite) : osite_shape d Dl Dr W = true -> forall r, In r W -> length r = d.
  Proof.
    intros H r Hin. destruct (osite_shape_rows _ _ _ _ H) as [_ Hr]. apply (site_shape_length R d Dl Dr). apply Hr. exact Hin.
  Qed.

  Lemma osel_oview d Dl Dr (W : osite) s t : osite_shape d Dl Dr W = true -> s < d -> t < d ->
    osel W s t = sel (oview W) (s * d + t).
  Proof.
    intros H Hs Ht. destruct (osite_shape_rows _ _ _ _ H) as [Hl _]. unfold osel, sel, oview. symmetry.
    apply nth_concat_uniform; [apply (osite_rows_len d Dl Dr W H)|lia|exact Ht].
  Qed.

  Lemma length_oview d Dl Dr (W : osite) : osite_shape d Dl Dr W = true -> length (oview W) = d * d.
  Proof.
    intros H. destruct (osite_shape_rows _ _ _ _ H) as [Hl _]. unfold oview.
    rewrite (length_concat_uniform d) by (apply (osite_rows_len d Dl Dr W H)). rewrite Hl. reflexivity.
  Qed.

  Lemma osel_ounview d (A : site) s t : s < d -> t < d -> osel (ounview d A) s t = sel A (s * d + t).
  Proof.
    intros Hs Ht. unfold osel, ounview. rewrite (nth_map_seq [] d _ s Hs).
    exact (nth_map_seq (zeromx 0 0) d (fun t => sel A (s * d + t)) t Ht).
  Qed.

  Lemma length_ounview d (A : site) : length (ounview d A) = d.
  Proof. unfold ounview. rewrite map_length, seq_length. reflexivity. Qed.

  Lemma ounview_rows_len d (A : site) r : In r (ounview d A) -> length r = d.
  Proof.
    unfold ounview. intros H. apply in_map_iff in H. destruct H as (s & <- & _). rewrite map_length, seq_length. reflexivity.
  Qed.

  (* round trip *)
  Lemma oview_ounview d (A : site) : length A = d * d -> oview (ounview d A) = A.
  Proof.
    intros HA. apply (list_eq_nth (zeromx 0 0)).
    - unfold oview. rewrite (length_concat_uniform d) by (apply ounview_rows_len). rewrite length_ounview. lia.
    - intros i Hi. unfold oview in Hi. rewrite (length_concat_uniform d) in Hi by (apply ounview_rows_len).
      rewrite length_ounview in Hi. destruct (row_split d d i Hi) as (s & t & Hs & Ht & ->).
      fold (sel (oview (ounview d A)) (s * d + t)). fold (sel A (s * d + t)).
      unfold sel at 1. unfold oview. rewrite (nth_concat_uniform (zeromx 0 0) d).
      + fold (osel (ounview d A) s t). apply osel_ounview; assumption.
      + apply ounview_rows_len.
      + rewrite length_ounview. exact Hs.
      + exact Ht.
  Qed.

  Lemma map_oview_ounview d (As : list site) : Forall (fun A => length A = d * d) As ->
    map oview (map (ounview d) As) = As.
  Proof.
    intros H. induction H as [|A As HA H IH]; [reflexivity|]. cbn [map]. rewrite IH, (oview_ounview d A HA). reflexivity.
  Qed.

  (* ---------- (2) shapes ---------- *)
  Lemma site_shape_sel_b d Dl Dr (A : site) s : site_shape d Dl Dr A = true -> s < d ->
    wfb (sel A s) = true /\ nr (sel A s) = Dl /\ nc (sel A s) = Dr.
  Proof.
    unfold site_shape. rewrite andb_true_iff, Nat.eqb_eq, forallb_forall. intros [Hl H] Hs.
    assert (Hin : In (sel A s) A) by (apply nth_In; lia).
    specialize (H _ Hin). rewrite !andb_true_iff, !Nat.eqb_eq in H. tauto.
  Qed.

  Lemma site_shape_oview d Dl Dr (W : osite) : osite_shape d Dl Dr W = true -> site_shape (d * d) Dl Dr (oview W) = true.
  Proof.
    intros H. unfold site_shape. rewrite (length_oview d Dl Dr W H), Nat.eqb_refl. cbn [andb].
    apply forallb_forall. intros M HM. unfold oview in HM. apply in_concat in HM. destruct HM as (r & Hr & HM).
    destruct (osite_shape_rows _ _ _ _ H) as [_ Hrows]. specialize (Hrows r Hr).
    unfold site_shape in Hrows. apply andb_true_iff in Hrows. destruct Hrows as [_ Hrows].
    rewrite forallb_forall in Hrows. apply Hrows. exact HM.
  Qed.

  Lemma osite_shape_ounview d Dl Dr (A : site) : site_shape (d * d) Dl Dr A = true -> osite_shape d Dl Dr (ounview d A) = true.
  Proof.
    intros H. unfold osite_shape. rewrite length_ounview, Nat.eqb_refl. cbn [andb].
    apply forallb_forall. intros r Hr. unfold ounview in Hr. apply in_map_iff in Hr. destruct Hr as (s & <- & Hs).
    apply in_seq in Hs. apply (site_shape_map R). intros t Ht.
    apply (site_shape_sel_b (d * d) Dl Dr A); [exact H|apply pair_lt; lia].
  Qed.

  Lemma chain_shape_oview d : forall (Ws : list osite) Ds,
    ochain_shape d Ds Ws = true -> chain_shape (d * d) Ds (map oview Ws) = true.
  Proof.
    induction Ws as [|W Ws IH]; intros Ds H.
    - destruct Ds as [|D [|? ?]]; simpl in H; try discriminate. reflexivity.
    - destruct Ds as [|Dl [|Dr Ds]]; [discriminate H|discriminate H|].
      rewrite ochain_shape_cons in H. apply andb_true_iff in H. destruct H as [H1 H2].
      cbn [map]. rewrite (MPSOpsBase.chain_shape_cons R). rewrite (site_shape_oview _ _ _ _ H1). apply IH. exact H2.
  Qed.

  Lemma ochain_shape_ounview d : forall (As : list site) Ds,
    chain_shape (d * d) Ds As = true -> ochain_shape d Ds (map (ounview d) As) = true.
  Proof.
    induction As as [|A As IH]; intros Ds H.
    - destruct Ds as [|D [|? ?]]; simpl in H; try discriminate. reflexivity.
    - destruct Ds as [|Dl [|Dr Ds]]; [discriminate H|discriminate H|].
      rewrite (MPSOpsBase.chain_shape_cons R) in H. apply andb_true_iff in H. destruct H as [H1 H2].
      cbn [map]. rewrite ochain_shape_cons. rewrite (osite_shape_ounview _ _ _ _ H1). apply IH. exact H2.
  Qed.

  Lemma chain_shape_all_len d : forall (As : list site) Ds,
    chain_shape d Ds As = true -> Forall (fun A => length A = d) As.
  Proof.
    induction As as [|A As IH]; intros Ds H; [constructor|].
    destruct Ds as [|Dl [|Dr Ds]]; [discriminate H|discriminate H|].
    rewrite (MPSOpsBase.chain_shape_cons R) in H. apply andb_true_iff in H. destruct H as [H1 H2].
    constructor; [apply (site_shape_length R d Dl Dr); exact H1|apply (IH _ H2)].
  Qed.

  (* ---------- (3) block sparsity ---------- *)
  Definition osite_qsp (qd ql qr : list Z) (W : osite) : Prop :=
    forall s t a b, s < length qd -> t < length qd -> a < length ql -> b < length qr ->
      get (osel W s t) a b <> k0 R -> (zget qd s - zget qd t + zget ql a = zget qr b)%Z.

  Lemma osite_qsparse_qsp qd ql qr (W : osite) : osite_qsparse qd ql qr W = true -> osite_qsp qd ql qr W.
  Proof.
    unfold osite_qsparse, osite_qsp. intros H s t a b Hs Ht Ha Hb Hnz.
    rewrite forallb_forall in H. specialize (H s ltac:(apply in_seq; lia)).
    rewrite forallb_forall in H. specialize (H t ltac:(apply in_seq; lia)).
    rewrite forallb_forall in H. specialize (H a ltac:(apply in_seq; lia)).
    rewrite forallb_forall in H. specialize (H b ltac:(apply in_seq; lia)).
    apply orb_true_iff in H. destruct H as [H|H].
    - apply keqb_spec in H. contradiction.
    - apply Z.eqb_eq. exact H.
  Qed.
  Lemma osite_qsp_qsparse qd ql qr (W : osite) : osite_qsp qd ql qr W -> osite_qsparse qd ql qr W = true.
  Proof.
    unfold osite_qsparse, osite_qsp. intros H.
    apply forallb_forall. intros s Hs. apply in_seq in Hs.
    apply forallb_forall. intros t Ht. apply in_seq in Ht.
    apply forallb_forall. intros a Ha. apply in_seq in Ha.
    apply forallb_forall. intros b Hb. apply in_seq in Hb.
    destruct (keqb R (get (osel W s t) a b) (k0 R)) eqn:E; [reflexivity|]. simpl.
    apply Z.eqb_eq. apply H; try lia. apply keqb_false. exact E.
  Qed.

  Lemma site_qsparse_oview qd ql qr Dl Dr (W : osite) : osite_shape (length qd) Dl Dr W = true ->
    osite_qsparse qd ql qr W = true -> site_qsparse (qflat qd (zneg qd)) ql qr (oview W) = true.
  Proof.
    intros Hsh H. apply osite_qsparse_qsp in H. apply (site_qsp_qsparse R). intros p a b Hp Ha Hb Hnz.
    rewrite qflat_length, zneg_length in Hp. destruct (row_split _ _ p Hp) as (s & t & Hs & Ht & ->).
    rewrite zget_qflat_neg by assumption. apply (H s t a b Hs Ht Ha Hb).
    rewrite (osel_oview _ _ _ W s t Hsh Hs Ht). exact Hnz.
  Qed.

  Lemma osite_qsparse_ounview qd ql qr (A : site) :
    site_qsparse (qflat qd (zneg qd)) ql qr A = true -> osite_qsparse qd ql qr (ounview (length qd) A) = true.
  Proof.
    intros H. apply (site_qsparse_qsp R) in H. apply osite_qsp_qsparse. intros s t a b Hs Ht Ha Hb Hnz.
    rewrite osel_ounview in Hnz by assumption. rewrite <- zget_qflat_neg by assumption.
    apply (H (s * length qd + t) a b); [|exact Ha|exact Hb|exact Hnz].
    rewrite qflat_length, zneg_length. apply pair_lt; assumption.
  Qed.

  Lemma chain_qsparse_oview qd : forall (Ws : list osite) qs,
    ochain_shape (length qd) (lens qs) Ws = true ->
    ochain_qsparse qd qs Ws = true -> chain_qsparse (qflat qd (zneg qd)) qs (map oview Ws) = true.
  Proof.
    unfold lens. induction Ws as [|W Ws IH]; intros qs Hs H.
    - destruct qs as [|q [|? ?]]; simpl in H; try discriminate. reflexivity.
    - destruct qs as [|ql [|qr qs]]; [discriminate H|discriminate H|].
      cbn [map] in Hs. rewrite ochain_shape_cons in Hs. apply andb_true_iff in Hs. destruct Hs as [Hs1 Hs2].
      change (ochain_qsparse qd (ql :: qr :: qs) (W :: Ws))
        with (osite_qsparse qd ql qr W && ochain_qsparse qd (qr :: qs) Ws) in H.
      apply andb_true_iff in H. destruct H as [H1 H2].
      cbn [map]. rewrite (chain_qsparse_cons R). rewrite (site_qsparse_oview qd ql qr _ _ W Hs1 H1). apply IH; assumption.
  Qed.

  Lemma ochain_qsparse_ounview qd : forall (As : list site) qs,
    chain_qsparse (qflat qd (zneg qd)) qs As = true -> ochain_qsparse qd qs (map (ounview (length qd)) As) = true.
  Proof.
    induction As as [|A As IH]; intros qs H.
    - destruct qs as [|q [|? ?]]; simpl in H; try discriminate. reflexivity.
    - destruct qs as [|ql [|qr qs]]; [discriminate H|discriminate H|].
      rewrite (chain_qsparse_cons R) in H. apply andb_true_iff in H. destruct H as [H1 H2].
      cbn [map].
      change (osite_qsparse qd ql qr (ounview (length qd) A) && ochain_qsparse qd (qr :: qs) (map (ounview (length qd)) As) = true).
      rewrite (osite_qsparse_ounview qd ql qr A H1). apply IH. exact H2.
  Qed.

  Lemma mps_ok_view (o : mpo R) : mpo_ok o = true -> mps_ok (mpo_view o) = true.
  Proof.
    unfold mpo_ok, mps_ok, mpo_view. cbn [m_qd m_qD m_A]. rewrite qflat_length, zneg_length.
    intros H. apply andb_true_iff in H. destruct H as [H1 H2].
    rewrite (chain_shape_oview _ _ _ H1). apply chain_qsparse_oview; assumption.
  Qed.

  Lemma mpo_ok_unview qd (p : mps R) : mps_ok p = true -> m_qd p = qflat qd (zneg qd) -> mpo_ok (mpo_unview qd p) = true.
  Proof.
    unfold mpo_ok, mps_ok, mpo_unview. cbn [o_qd o_qD o_A]. intros H E. rewrite E in H.
    rewrite qflat_length, zneg_length in H. apply andb_true_iff in H. destruct H as [H1 H2].
    rewrite (ochain_shape_ounview _ _ _ H1). apply ochain_qsparse_ounview. exact H2.
  Qed.

  (* ---------- (4) amplitudes ---------- *)
  Lemma opick_view d : forall (Ws : list osite) Ds w w', ochain_shape d Ds Ws = true ->
    length w = length Ws -> length w' = length Ws -> letters d w -> letters d w' ->
    opick Ws w w' = pick (map oview Ws) (pairw d w w').
  Proof.
    induction Ws as [|W Ws IH]; intros Ds w w' Hs Hl Hl' Hw Hw'.
    - destruct w; destruct w'; reflexivity.
    - destruct w as [|s w]; [discriminate Hl|]. destruct w' as [|t w']; [discriminate Hl'|].
      destruct Ds as [|Dl [|Dr Ds]]; [discriminate Hs|discriminate Hs|].
      rewrite ochain_shape_cons in Hs. apply andb_true_iff in Hs. destruct Hs as [Hs1 Hs2].
      assert (Hs' := Forall_inv Hw). assert (Ht' := Forall_inv Hw'). cbv beta in Hs', Ht'.
      unfold pairw. cbn [map combine fst snd opick pick]. fold (pairw d w w').
      rewrite (osel_oview d Dl Dr W s t Hs1 Hs' Ht'). f_equal.
      apply (IH (Dr :: Ds)); [exact Hs2|simpl in Hl; lia|simpl in Hl'; lia|exact (Forall_inv_tail Hw)|exact (Forall_inv_tail Hw')].
  Qed.

  Lemma opamp_view d (Ws : list osite) Ds w w' : ochain_shape d Ds Ws = true ->
    length w = length Ws -> length w' = length Ws -> letters d w -> letters d w' ->
    opamp Ws w w' = amp (map oview Ws) (pairw d w w').
  Proof. intros. unfold opamp, amp. rewrite (opick_view d Ws Ds); auto. Qed.

  Lemma opick_unview d : forall (As : list site) w w',
    length w = length As -> length w' = length As -> letters d w -> letters d w' ->
    opick (map (ounview d) As) w w' = pick As (pairw d w w').
  Proof.
    induction As as [|A As IH]; intros w w' Hl Hl' Hw Hw'.
    - destruct w; destruct w'; reflexivity.
    - destruct w as [|s w]; [discriminate Hl|]. destruct w' as [|t w']; [discriminate Hl'|].
      assert (Hs' := Forall_inv Hw). assert (Ht' := Forall_inv Hw'). cbv beta in Hs', Ht'.
      unfold pairw. cbn [map combine fst snd opick pick]. fold (pairw d w w').
      rewrite (osel_ounview d A s t Hs' Ht'). f_equal.
      apply IH; [simpl in Hl; lia|simpl in Hl'; lia|exact (Forall_inv_tail Hw)|exact (Forall_inv_tail Hw')].
  Qed.

  Lemma opamp_unview d (As : list site) w w' :
    length w = length As -> length w' = length As -> letters d w -> letters d w' ->
    opamp (map (ounview d) As) w w' = amp As (pairw d w w').
  Proof. intros. unfold opamp, amp. rewrite (opick_unview d As); auto. Qed.
End View.

(* ---------- (5) the MPO theorem over Cx F ---------- *)
Section MPOTop.
  Variable F : ofield.
  Notation CF := (Cx F).
  Variable dqr : mx CF -> mx CF * mx CF.

  Theorem mpo_orth_left_spec (o : mpo CF) (d : nat) :
    1 <= d -> length (o_qd o) = d -> o_A o <> [] -> mpo_ok o = true ->
    length (hd [] (o_qD o)) = 1 -> length (last (o_qD o) []) = 1 ->
    Forall (fun q => 1 <= length q) (o_qD o) ->
    Forall (qr_call_ok F dqr) (mpo_orth_calls dqr true o) ->
    exists o' nrm, mpo_orthonormalize dqr true o = Some (o', nrm) /\
      o_qd o' = o_qd o /\ length (o_A o') = length (o_A o) /\ mpo_ok o' = true /\
      hd [] (o_qD o') = hd [] (o_qD o) /\ length (last (o_qD o') []) = 1 /\
      Forall (fun q => 1 <= length q) (o_qD o') /\
      bond_bound (d * d) (lens (o_qD o')) (lens (o_qD o)) /\
      chain_liso (lens (o_qD o')) (map oview (o_A o')) /\
      fle F (f0 F) nrm /\
      (forall w w', length w = length (o_A o) -> length w' = length (o_A o) -> letters d w -> letters d w' ->
         opamp (o_A o) w w' = kmul CF (cof nrm) (opamp (o_A o') w w')) /\
      norm2 (d * d) (map oview (o_A o)) = cof (fmul F nrm nrm) /\
      norm2 (d * d) (map oview (o_A o')) = k1 CF.
  Proof.
    intros Hd Lqd Hne Hok Hfirst Hlast Hpos Hcalls.
    assert (Hosh : ochain_shape d (lens (o_qD o)) (o_A o) = true).
    { unfold mpo_ok in Hok. apply andb_true_iff in Hok. rewrite Lqd in Hok. exact (proj1 Hok). }
    assert (Lqv : length (m_qd (mpo_view o)) = d * d).
    { cbn [mpo_view m_qd]. rewrite qflat_length, zneg_length, Lqd. reflexivity. }
    destruct (orth_left_spec F dqr (mpo_view o) (d * d)) as
      (p' & nrm & E & Eqd & Hlen & Hok2 & Hhd & Hlast2 & Hpos2 & Hbb & Hiso & Hnn & Hamp & Hn & Hn1).
    - nia.
    - exact Lqv.
    - cbn [mpo_view m_A]. intros E. apply map_eq_nil in E. contradiction.
    - apply mps_ok_view. exact Hok.
    - exact Hfirst.
    - exact Hlast.
    - exact Hpos.
    - exact Hcalls.
    - cbn [mpo_view m_qd m_qD m_A] in Eqd, Hlen, Hhd, Hbb, Hamp, Hn. rewrite map_length in Hlen, Hamp.
      assert (Hlens : Forall (fun A => length A = d * d) (m_A p')).
      { unfold mps_ok in Hok2. apply andb_true_iff in Hok2. destruct Hok2 as [Hs _].
        rewrite Eqd, qflat_length, zneg_length, Lqd in Hs. exact (chain_shape_all_len CF (d * d) _ _ Hs). }
      assert (Hrt : map oview (o_A (mpo_unview (o_qd o) p')) = m_A p').
      { cbn [mpo_unview o_A]. rewrite Lqd. apply map_oview_ounview. exact Hlens. }
      exists (mpo_unview (o_qd o) p'), nrm.
      split. { unfold mpo_orthonormalize. rewrite E. reflexivity. }
      split; [reflexivity|].
      split. { cbn [mpo_unview o_A]. rewrite map_length. exact Hlen. }
      split. { apply mpo_ok_unview; assumption. }
      cbn [mpo_unview o_qD]. rewrite Hrt.
      split; [exact Hhd|]. split; [exact Hlast2|]. split; [exact Hpos2|]. split; [exact Hbb|]. split; [exact Hiso|].
      split; [exact Hnn|].
      split; [|split; [exact Hn|exact Hn1]].
      intros w w' Hlw Hlw' Hw Hw'.
      rewrite (opamp_view CF d (o_A o) _ w w' Hosh Hlw Hlw' Hw Hw').
      rewrite Hamp by (try (rewrite pairw_length; lia); apply pairw_letters; assumption).
      cbn [mpo_unview o_A]. rewrite Lqd. rewrite (opamp_unview CF d (m_A p') w w') by (try lia; assumption). reflexivity.
  Qed.
End MPOTop.

Print Assumptions mpo_orth_left_spec.
Print Assumptions opamp_view.
Print Assumptions mps_ok_view.
Print Assumptions mpo_ok_unview.
Print Assumptions oview_ounview.
