(* C13 — the parts of the compression statement that are proved: the returned norm is the norm returned by the preceding
   orthonormalisation (hence >= 0 and nrm^2 = <psi|psi>), and the ordered-field algebra behind the scale bounds
   (Bernoulli for a product of factors 1 - eps_i). *)
From Coq Require Import ZArith List Bool Lia Arith Ring Field.
From PT Require Import Base.Scalar Base.Field Base.BigSum Base.Mx Model.Tensor Model.BondOps Model.Orthonormalize.
From PT Require Import Proofs.OrthDefs Proofs.OrthSweep Proofs.OrthTop Proofs.OrthRight.
Import ListNotations.

Section Algebra.
  Variable F : ofield.
  Add Field Ffield_c13 : (f_ft F).
  Notation "0" := (f0 F). Notation "1" := (f1 F).
  Infix "+" := (fadd F). Infix "*" := (fmul F). Infix "-" := (fsub F).
  Infix "<=" := (fle F).

  Fixpoint fprod (l : list F) : F := match l with [] => 1 | x :: t => x * fprod t end.
  (* n . x *)
  Fixpoint nsmul (n : nat) (x : F) : F := match n with O => 0 | S m => x + nsmul m x end.

  Lemma f01 : 0 <= 1. Proof. apply flt_le. apply f1_pos. Qed.
  Lemma sub_nn a b : a <= b -> 0 <= b - a. Proof. apply (proj1 (fle_sub_nonneg F a b)). Qed.
  Lemma le_of_sub a b : 0 <= b - a -> a <= b. Proof. apply (proj2 (fle_sub_nonneg F a b)). Qed.

  Lemma bernoulli_list (eps : list F) : (forall e, In e eps -> 0 <= e /\ e <= 1) ->
    0 <= fprod (map (fun e => 1 - e) eps) /\ fprod (map (fun e => 1 - e) eps) <= 1 /\
    0 <= fsum eps /\ 1 - fsum eps <= fprod (map (fun e => 1 - e) eps).
  Proof.
    induction eps as [|e eps IH]; intros H; simpl.
    - split; [apply f01|]. split; [apply fle_refl|]. split; [apply fle_refl|].
      apply le_of_sub. replace (1 - (1 - 0)) with 0 by ring. apply fle_refl.
    - destruct (H e (or_introl eq_refl)) as [He0 He1].
      destruct IH as (P0 & P1 & S0 & PS); [intros x Hx; apply H; right; exact Hx|].
      set (P := fprod (map (fun e => 1 - e) eps)) in *. set (S := fsum eps) in *.
      assert (Hv : 0 <= 1 - e) by (apply sub_nn; exact He1).
      assert (HP1 : 0 <= 1 - P) by (apply sub_nn; exact P1).
      assert (Hu : 0 <= P - (1 - S)) by (apply sub_nn; exact PS).
      split; [apply fle_mul; assumption|].
      split. { apply le_of_sub. replace (1 - (1 - e) * P) with ((1 - P) + e * P) by ring.
               apply fle_add_nonneg; [exact HP1|apply fle_mul; assumption]. }
      split; [apply fle_add_nonneg; assumption|].
      apply le_of_sub. replace ((1 - e) * P - (1 - (e + S))) with ((1 - e) * (P - (1 - S)) + e * S) by ring.
      apply fle_add_nonneg; apply fle_mul; assumption.
  Qed.

  Lemma fsum_le_nsmul (eps : list F) tol : (forall e, In e eps -> e <= tol) -> fsum eps <= nsmul (length eps) tol.
  Proof.
    induction eps as [|e eps IH]; intros H; simpl; [apply fle_refl|].
    apply fle_add_compat; [apply H; left; reflexivity|]. apply IH. intros x Hx. apply H. right. exact Hx.
  Qed.

  (* 0 <= eps_i <= tol <= 1  ==>  1 - L.tol <= prod (1 - eps_i) <= 1 *)
  Theorem scale_bounds (eps : list F) tol : (forall e, In e eps -> 0 <= e /\ e <= tol) -> tol <= 1 ->
    1 - nsmul (length eps) tol <= fprod (map (fun e => 1 - e) eps) /\ fprod (map (fun e => 1 - e) eps) <= 1 /\
    0 <= fprod (map (fun e => 1 - e) eps).
  Proof.
    intros H Ht.
    destruct (bernoulli_list eps) as (P0 & P1 & S0 & PS).
    { intros e He. destruct (H e He) as [H0 H1]. split; [exact H0|]. eapply fle_trans; eauto. }
    split; [|split; assumption].
    eapply fle_trans; [|exact PS].
    apply le_of_sub.
    replace (1 - fsum eps - (1 - nsmul (length eps) tol)) with (nsmul (length eps) tol - fsum eps) by ring.
    apply sub_nn. apply fsum_le_nsmul. intros e He. apply (H e He).
  Qed.
End Algebra.
Arguments fprod {F} l. Arguments nsmul {F} n x.

Section CompressNrm.
  Variable F : ofield.
  Notation CF := (Cx F).
  Variable dqr : mx CF -> mx CF * mx CF.
  Variable dsvd : mx CF -> mx CF * list F * mx CF.
  Variable pick : list F -> list nat.
  Variable cabs : CF -> F.

  (* the first value returned by MPS.compress is the value returned by orthonormalize(opposite mode) *)
  Lemma compress_nrm_orth tol left (p p' : mps CF) nrm sc :
    mps_compress dqr dsvd pick cabs tol left p = Some (p', nrm, sc) ->
    exists p1, mps_orthonormalize dqr (negb left) p = Some (p1, nrm).
  Proof.
    unfold mps_compress. destruct (mps_orthonormalize dqr (negb left) p) as [[p1 n]|]; [|discriminate].
    destruct left.
    - destruct (compress_core cabs _ _ _) as [[[As qs] s]|]; [|discriminate]. intros E. inversion E; subst. eauto.
    - destruct (compress_core cabs _ _ _) as [[[As qs] s]|]; [|discriminate]. intros E. inversion E; subst. eauto.
  Qed.

  Theorem compress_nrm_spec tol left (p p' : mps CF) (d : nat) nrm sc :
    1 <= d -> length (m_qd p) = d -> m_A p <> [] -> mps_ok p = true ->
    length (hd [] (m_qD p)) = 1 -> length (last (m_qD p) []) = 1 ->
    Forall (fun q => 1 <= length q) (m_qD p) ->
    Forall (qr_call_ok F dqr) (mps_orth_calls dqr (negb left) p) ->
    mps_compress dqr dsvd pick cabs tol left p = Some (p', nrm, sc) ->
    fle F (f0 F) nrm /\ norm2 d (m_A p) = cof (fmul F nrm nrm).
  Proof.
    intros Hd Lqd Hne Hok Hf Hl Hpos Hcalls E.
    destruct (compress_nrm_orth tol left p p' nrm sc E) as (p1 & E1).
    destruct left; cbn [negb] in *.
    - destruct (orth_right_spec F dqr p d Hd Lqd Hne Hok Hf Hl Hpos Hcalls) as (p2 & n2 & E2 & H).
      rewrite E1 in E2. inversion E2; subst. tauto.
    - destruct (orth_left_spec F dqr p d Hd Lqd Hne Hok Hf Hl Hpos Hcalls) as (p2 & n2 & E2 & H).
      rewrite E1 in E2. inversion E2; subst. tauto.
  Qed.
End CompressNrm.
