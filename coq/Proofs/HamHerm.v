(* C06: Hermiticity at the level of words.  H = sum_w c_w O_w  and  O_w^H = O_(adj w)  (entrywise fact about the operator map),
   so H is Hermitian iff  c_(adj w) = conj c_w  for every word w.  For a table that the chain adjoint maps to a permutation of
   itself this holds for every lattice size. *)
From Coq Require Import ZArith List Lia Bool Permutation Ring.
From PT Require Import Base.Scalar Base.BigSum Base.Mx Model.OpGraph Model.FromOpchains Model.GraphMPO Model.Hamiltonians Model.HamFormulas
                       Proofs.FromOpchainsPart Proofs.HamShift Proofs.HamFinite.
Import ListNotations.
Open Scope Z_scope.

Lemma map_repeat' {A B} (f : A -> B) x n : map f (repeat x n) = repeat (f x) n.
Proof. induction n; simpl; [reflexivity|]. f_equal. assumption. Qed.

Section Herm.
  Variable R : cring.
  Add Ring Rring_herm : (k_rt R).
  Notation "0r" := (k0 R). Notation "1r" := (k1 R).
  Infix "+r" := (kadd R) (at level 50, left associativity).
  Infix "*r" := (kmul R) (at level 40, left associativity).
  Variable adjo : Z -> Z.
  Hypothesis adjo_inv : forall o, adjo (adjo o) = o.

  Lemma map_adjo_inv w : map adjo (map adjo w) = w.
  Proof. rewrite map_map. rewrite <- (map_id w) at 2. apply map_ext. exact adjo_inv. Qed.
  Lemma zlist_eqb_adj a b : zlist_eqb a (map adjo b) = zlist_eqb (map adjo a) b.
  Proof.
    destruct (zlist_eqb a (map adjo b)) eqn:E1, (zlist_eqb (map adjo a) b) eqn:E2; try reflexivity.
    - apply zlist_eqb_eq in E1. subst a. rewrite map_adjo_inv in E2.
      assert (zlist_eqb b b = true) by (apply zlist_eqb_eq; reflexivity). congruence.
    - apply zlist_eqb_eq in E2. subst b. rewrite map_adjo_inv in E1.
      assert (zlist_eqb a a = true) by (apply zlist_eqb_eq; reflexivity). congruence.
  Qed.
  Lemma kconj_indb b : kconj R (indb b) = indb b.
  Proof. destruct b; simpl; [apply kconj_1|apply kconj_0]. Qed.
  Lemma kconj_hits L idn oids w : kconj R (hits (R := R) L idn oids w) = hits L idn oids w.
  Proof. unfold hits. rewrite sumn_conj. apply sumn_ext. intros i _. apply kconj_indb. Qed.
  Lemma kconj_suml {A} (l : list A) f : kconj R (suml l f) = suml l (fun x => kconj R (f x)).
  Proof. induction l as [|a l IH]; simpl; [apply kconj_0|]. rewrite kconj_add, IH. reflexivity. Qed.

  Lemma hits_adj L idn oids w : adjo idn = idn -> hits (R := R) L idn oids (map adjo w) = hits L idn (map adjo oids) w.
  Proof.
    intros Hid. unfold hits. rewrite map_length. apply sumn_ext. intros i _. unfold is_word. f_equal.
    rewrite zlist_eqb_adj. f_equal. unfold padw. rewrite !map_app, map_length, !map_repeat', Hid. reflexivity.
  Qed.

  (* Hermiticity condition on the coefficients, for every L *)
  Theorem local_sum_adj L idn (lop : list (chain R)) w : adjo idn = idn ->
    Permutation (map (chain_adj adjo) lop) lop ->
    local_sum L idn lop (map adjo w) = kconj R (local_sum L idn lop w).
  Proof.
    intros Hid Hp. unfold local_sum. rewrite kconj_suml.
    rewrite <- (suml_permutation R _ _ (fun l => kconj R (c_coeff l *r hits L idn (c_oids l) w)) Hp).
    rewrite suml_map. apply suml_ext. intros c _. unfold chain_adj. cbn [c_coeff c_oids].
    rewrite kconj_mul, kconj_inv, kconj_hits. rewrite hits_adj by exact Hid. reflexivity.
  Qed.
End Herm.

Lemma adjo_pm_inv o : adjo_pm (adjo_pm o) = o.
Proof.
  unfold adjo_pm. destruct (o =? 1) eqn:E1; [apply Z.eqb_eq in E1; subst; reflexivity|].
  destruct (o =? -1) eqn:E2; [apply Z.eqb_eq in E2; subst; reflexivity|]. rewrite E1, E2. reflexivity.
Qed.
Lemma adjo_fermi_inv o : adjo_fermi (adjo_fermi o) = o.
Proof.
  unfold adjo_fermi.
  repeat match goal with |- context [o =? ?k] => let E := fresh "E" in destruct (o =? k) eqn:E; [apply Z.eqb_eq in E; subst; reflexivity|] end.
  rewrite ?E, ?E0, ?E1, ?E2, ?E3, ?E4, ?E5, ?E6. reflexivity.
Qed.

Section HermModels.
  Variable R : cring.
  Theorem xxz_hermitian (half J D h : R) L w : (1 <= L)%nat ->
    kconj R half = half -> kconj R J = J -> kconj R D = D -> kconj R h = h ->
    xxz_formula half J D h L (map adjo_pm w) = kconj R (xxz_formula half J D h L w).
  Proof.
    intros HL H1 H2 H3 H4. rewrite <- !(xxz_table R half J D h L) by exact HL.
    apply (local_sum_adj R adjo_pm adjo_pm_inv); [reflexivity|]. apply xxz_table_adj; assumption.
  Qed.
  Theorem bose_hermitian (t U mu : R) L w : (1 <= L)%nat ->
    kconj R t = t -> kconj R U = U -> kconj R mu = mu ->
    bose_formula t U mu L (map adjo_pm w) = kconj R (bose_formula t U mu L w).
  Proof.
    intros HL H1 H2 H3. rewrite <- !(bose_table R t U mu L) by exact HL.
    apply (local_sum_adj R adjo_pm adjo_pm_inv); [reflexivity|]. apply bose_table_adj; assumption.
  Qed.
  Theorem fermi_hermitian (t U mu : R) L w : (1 <= L)%nat ->
    kconj R t = t -> kconj R U = U -> kconj R mu = mu ->
    fermi_formula t U mu L (map adjo_fermi w) = kconj R (fermi_formula t U mu L w).
  Proof.
    intros HL H1 H2 H3. rewrite <- !(fermi_table R t U mu L) by exact HL.
    apply (local_sum_adj R adjo_fermi adjo_fermi_inv); [reflexivity|]. apply fermi_table_adj; assumption.
  Qed.
End HermModels.
