(* From the sorted block loop to bond_ops.qr / split_matrix_svd on arbitrary charge vectors. *)
From Coq Require Import ZArith List Bool Lia Arith Permutation Sorted Ring.
From PT Require Import Base.Scalar Base.BigSum Base.Mx Model.BondOps Proofs.BondOpsPerm Proofs.BondOpsLoop.
Import ListNotations.

Section Sel.
  Variable R : cring.
  Notation mx := (mx R).

  Lemma rowsel_id (M : mx) : wf M -> rowsel (seq 0 (nr M)) M = M.
  Proof.
    intros HM. apply mx_ext; [apply wf_tab|exact HM| | |].
    - unfold rowsel. rewrite nr_tab. apply seq_length.
    - reflexivity.
    - unfold rowsel. rewrite nr_tab, nc_tab, seq_length. intros i j Hi Hj.
      rewrite get_tab by (rewrite ?seq_length; assumption). rewrite seq_nth by exact Hi. reflexivity.
  Qed.
  Lemma colsel_id (M : mx) : wf M -> colsel (seq 0 (nc M)) M = M.
  Proof.
    intros HM. apply mx_ext; [apply wf_tab|exact HM| | |].
    - reflexivity.
    - unfold colsel. rewrite nc_tab. apply seq_length.
    - unfold colsel. rewrite nr_tab, nc_tab, seq_length. intros i j Hi Hj.
      rewrite get_tab by (rewrite ?seq_length; assumption). rewrite seq_nth by exact Hj. reflexivity.
  Qed.

  Lemma get_rowsel (p : list nat) (M : mx) i j : i < length p -> j < nc M -> get (rowsel p M) i j = get M (nth i p 0) j.
  Proof. intros Hi Hj. unfold rowsel. rewrite get_tab by assumption. reflexivity. Qed.
  Lemma get_colsel (p : list nat) (M : mx) i j : i < nr M -> j < length p -> get (colsel p M) i j = get M i (nth j p 0).
  Proof. intros Hi Hj. unfold colsel. rewrite get_tab by assumption. reflexivity. Qed.

  (* "permute only if not yet sorted" is a permutation in both cases *)
  Lemma sel_choice (q : list Z) n : length q = n ->
    exists p i,
      Permutation p (seq 0 n) /\ Permutation i (seq 0 n) /\ (forall t, t < n -> nth (nth t i 0) p 0 = t) /\
      (if negb (is_id (argsort q)) then takez (argsort q) q else q) = takez p q /\
      zsorted (takez p q) /\
      (forall M : mx, wf M -> nr M = n -> (if negb (is_id (argsort q)) then rowsel (argsort q) M else M) = rowsel p M) /\
      (forall M : mx, wf M -> nc M = n -> (if negb (is_id (argsort q)) then colsel (argsort q) M else M) = colsel p M) /\
      (forall M : mx, wf M -> nr M = n ->
         (if negb (is_id (argsort q)) then rowsel (argsort_nat (argsort q)) M else M) = rowsel i M) /\
      (forall M : mx, wf M -> nc M = n ->
         (if negb (is_id (argsort q)) then colsel (argsort_nat (argsort q)) M else M) = colsel i M).
  Proof.
    intros Hn. destruct (is_id (argsort q)) eqn:E; cbn [negb].
    - exists (seq 0 n), (seq 0 n). repeat split.
      + apply Permutation_refl.
      + apply Permutation_refl.
      + intros t Ht. rewrite !seq_nth by (rewrite ?seq_nth; assumption). reflexivity.
      + rewrite <- Hn. symmetry. apply takez_seq.
      + rewrite <- Hn, takez_seq. apply is_id_argsort_sorted. exact E.
      + intros M HM Hr. rewrite <- Hr. symmetry. apply rowsel_id. exact HM.
      + intros M HM Hr. rewrite <- Hr. symmetry. apply colsel_id. exact HM.
      + intros M HM Hr. rewrite <- Hr. symmetry. apply rowsel_id. exact HM.
      + intros M HM Hr. rewrite <- Hr. symmetry. apply colsel_id. exact HM.
    - assert (Hp : Permutation (argsort q) (seq 0 n)) by (rewrite <- Hn; apply argsort_perm).
      exists (argsort q), (argsort_nat (argsort q)). repeat split; auto.
      + rewrite <- (perm_length _ _ Hp). apply argsort_nat_perm.
      + intros t Ht. apply (argsort_nat_inv _ n); assumption.
      + apply argsort_sorted.
  Qed.
End Sel.

Section Lift.
  Variable R : cring.
  Add Ring Rring_lift : (k_rt R).
  Variable T : Type.
  Variable emb : T -> R.
  Variable CO : Prop.
  Variable PT : T -> Prop.
  Notation rO := (k0 R). Notation rI := (k1 R).
  Infix "+!" := (kadd R) (at level 50, left associativity).
  Infix "*!" := (kmul R) (at level 40, left associativity).
  Notation mx := (mx R).
  Notation cj := (kconj R).
  Variable A : mx.
  Variables q0 q1 : list Z.
  Variables p0 i0 p1 i1 : list nat.
  Hypothesis HwfA : wf A.
  Hypothesis Hl0 : length q0 = nr A.
  Hypothesis Hl1 : length q1 = nc A.
  Hypothesis Hp0 : Permutation p0 (seq 0 (nr A)).
  Hypothesis Hi0 : Permutation i0 (seq 0 (nr A)).
  Hypothesis Hinv0 : forall t, t < nr A -> nth (nth t i0 0) p0 0 = t.
  Hypothesis Hp1 : Permutation p1 (seq 0 (nc A)).
  Hypothesis Hi1 : Permutation i1 (seq 0 (nc A)).
  Hypothesis Hinv1 : forall t, t < nc A -> nth (nth t i1 0) p1 0 = t.

  Let A' := colsel p1 (rowsel p0 A).
  Let q0' := takez p0 q0.
  Let q1' := takez p1 q1.

  Lemma nrA' : nr A' = nr A. Proof. unfold A', colsel, rowsel. rewrite !nr_tab. apply (perm_length _ _ Hp0). Qed.
  Lemma ncA' : nc A' = nc A. Proof. unfold A', colsel. rewrite nc_tab. apply (perm_length _ _ Hp1). Qed.
  Lemma wfA' : wf A'. Proof. apply wf_tab. Qed.
  Lemma getA' i j : i < nr A -> j < nc A -> get A' i j = get A (nth i p0 0) (nth j p1 0).
  Proof.
    intros Hi Hj. unfold A', colsel. rewrite get_tab.
    - unfold rowsel. rewrite get_tab; [reflexivity|rewrite (perm_length _ _ Hp0); exact Hi|].
      apply (perm_nth_lt _ _ _ Hp1). exact Hj.
    - unfold rowsel. rewrite nr_tab, (perm_length _ _ Hp0). exact Hi.
    - rewrite (perm_length _ _ Hp1). exact Hj.
  Qed.
  Lemma lenq0' : length q0' = nr A'. Proof. unfold q0'. rewrite takez_length, nrA'. apply (perm_length _ _ Hp0). Qed.
  Lemma lenq1' : length q1' = nc A'. Proof. unfold q1'. rewrite takez_length, ncA'. apply (perm_length _ _ Hp1). Qed.
  Lemma nthq0' i : i < nr A -> nth i q0' 0%Z = nth (nth i p0 0) q0 0%Z.
  Proof. intros Hi. unfold q0'. apply takez_nth. rewrite (perm_length _ _ Hp0). exact Hi. Qed.
  Lemma nthq1' j : j < nc A -> nth j q1' 0%Z = nth (nth j p1 0) q1 0%Z.
  Proof. intros Hj. unfold q1'. apply takez_nth. rewrite (perm_length _ _ Hp1). exact Hj. Qed.

  Lemma qspA' : qsp R A q0 q1 -> qsp R A' q0' q1'.
  Proof.
    intros H i j Hi Hj Hnz. rewrite nrA' in Hi. rewrite ncA' in Hj.
    rewrite getA' in Hnz by assumption. rewrite nthq0', nthq1' by assumption.
    apply H; [apply (perm_nth_lt _ _ _ Hp0); exact Hi|apply (perm_nth_lt _ _ _ Hp1); exact Hj|exact Hnz].
  Qed.

  Lemma lift pr st : post R T emb CO PT A' q0' q1' pr st ->
    post R T emb CO PT A q0 q1 pr (mkbst (rowsel i0 (bU st)) (colsel i1 (bV st)) (bS st) (bq st) (bD st)).
  Proof.
    intros P. destruct P as [P_wfU P_wfV P_nrU P_ncU P_nrV P_ncV P_lenS P_lenq P_D P_Usp P_Vsp P_prod P_orth P_co P_PT].
    rewrite nrA' in *. rewrite ncA' in *.
    assert (Li0 := perm_length _ _ Hi0). assert (Li1 := perm_length _ _ Hi1).
    assert (GU : forall i c, i < nr A -> c < bD st -> get (rowsel i0 (bU st)) i c = get (bU st) (nth i i0 0) c).
    { intros i c Hi Hc. unfold rowsel. rewrite get_tab; [reflexivity|lia|lia]. }
    assert (GV : forall c j, c < bD st -> j < nc A -> get (colsel i1 (bV st)) c j = get (bV st) c (nth j i1 0)).
    { intros c j Hc Hj. unfold colsel. rewrite get_tab; [reflexivity|lia|lia]. }
    constructor; cbn [bU bV bS bq bD]; try assumption; try apply wf_tab.
    - intros i c Hi Hc Hnz. unfold rowsel in Hi, Hc. rewrite nr_tab in Hi. rewrite nc_tab in Hc.
      rewrite GU in Hnz by lia.
      assert (Hlt : nth i i0 0 < nr A) by (apply (perm_nth_lt _ _ _ Hi0); lia).
      rewrite <- (P_Usp (nth i i0 0) c) by (try lia; exact Hnz).
      rewrite nthq0' by exact Hlt. rewrite Hinv0 by lia. reflexivity.
    - intros c j Hc Hj Hnz. unfold colsel in Hc, Hj. rewrite nr_tab in Hc. rewrite nc_tab in Hj.
      rewrite GV in Hnz by lia.
      assert (Hlt : nth j i1 0 < nc A) by (apply (perm_nth_lt _ _ _ Hi1); lia).
      rewrite (P_Vsp c (nth j i1 0)) by (try lia; exact Hnz).
      rewrite nthq1' by exact Hlt. rewrite Hinv1 by lia. reflexivity.
    - intros Hpr i j Hi Hj.
      assert (Hlti : nth i i0 0 < nr A) by (apply (perm_nth_lt _ _ _ Hi0); lia).
      assert (Hltj : nth j i1 0 < nc A) by (apply (perm_nth_lt _ _ _ Hi1); lia).
      rewrite (sumn_ext R (bD st) _ (fun c => get (bU st) (nth i i0 0) c *! wt R T emb (bS st) c *! get (bV st) c (nth j i1 0)))
        by (intros c Hc; rewrite GU, GV by assumption; reflexivity).
      rewrite (P_prod Hpr) by assumption. rewrite getA' by assumption. rewrite Hinv0, Hinv1 by assumption. reflexivity.
    - intros k l Hk Hl. rewrite <- (P_orth k l Hk Hl).
      rewrite <- (sumn_perm R (nr A) i0 (fun i => cj (get (bU st) i k) *! get (bU st) i l) Hi0).
      apply sumn_ext. intros i Hi. rewrite !GU by assumption. reflexivity.
    - intros HCO k l Hk Hl. rewrite <- (P_co HCO k l Hk Hl).
      rewrite <- (sumn_perm R (nc A) i1 (fun j => get (bV st) k j *! cj (get (bV st) l j)) Hi1).
      apply sumn_ext. intros j Hj. rewrite !GV by assumption. reflexivity.
  Qed.
End Lift.

(* ------------------------------------------------------------------ *)
(* keeping a subset of the columns (truncation)                         *)
(* ------------------------------------------------------------------ *)
Section Select.
  Variable R : cring.
  Add Ring Rring_sel : (k_rt R).
  Variable T : Type.
  Variable emb : T -> R.
  Variable CO : Prop.
  Variable PT : T -> Prop.
  Variable dT : T.
  Notation rO := (k0 R). Notation rI := (k1 R).
  Infix "+!" := (kadd R) (at level 50, left associativity).
  Infix "*!" := (kmul R) (at level 40, left associativity).
  Notation mx := (mx R).
  Notation cj := (kconj R).

  Lemma wt_nth (sv : list T) k : k < length sv -> wt R T emb sv k = emb (nth k sv dT).
  Proof. intros H. unfold wt. rewrite (nth_indep _ rO (emb dT)) by (rewrite map_length; exact H). apply map_nth. Qed.

  Lemma suml_nth (l : list nat) (f : nat -> R) : suml l f = sumn (length l) (fun a => f (nth a l 0)).
  Proof.
    rewrite <- (suml_seq R (length l)). rewrite <- (suml_map R (fun a => nth a l 0) (seq 0 (length l)) f).
    rewrite map_nth_seq. reflexivity.
  Qed.

  Lemma suml_filter_split (g : nat -> bool) (l : list nat) (f : nat -> R) :
    suml l f = suml (filter g l) f +! suml (filter (fun x => negb (g x)) l) f.
  Proof. induction l as [|a l IH]; simpl; [ring|]. destruct (g a); simpl; rewrite IH; ring. Qed.

  Lemma sumn_select D (g : nat -> bool) (f : nat -> R) :
    (forall c, c < D -> g c = false -> f c = rO) ->
    sumn D f = sumn (length (filter g (seq 0 D))) (fun a => f (nth a (filter g (seq 0 D)) 0)).
  Proof.
    intros H. rewrite <- suml_nth. rewrite <- (suml_seq R D). rewrite (suml_filter_split g).
    rewrite (suml_zero R (filter (fun x => negb (g x)) (seq 0 D))).
    - ring.
    - intros c Hc. apply filter_In in Hc. destruct Hc as [Hc Hg]. apply in_seq in Hc.
      apply H; [lia|]. destruct (g c); [discriminate|reflexivity].
  Qed.

  Section K.
    Variable D : nat. Variable g : nat -> bool.
    Let K := filter g (seq 0 D).
    Lemma K_lt a : a < length K -> nth a K 0 < D.
    Proof. intros H. assert (Hin := nth_In K 0 H). apply filter_In in Hin. destruct Hin as [Hin _]. apply in_seq in Hin. lia. Qed.
    Lemma K_g a : a < length K -> g (nth a K 0) = true.
    Proof. intros H. assert (Hin := nth_In K 0 H). apply filter_In in Hin. tauto. Qed.
    Lemma K_inj a b : a < length K -> b < length K -> nth a K 0 = nth b K 0 -> a = b.
    Proof. intros Ha Hb E. apply (proj1 (NoDup_nth K 0)); auto. apply NoDup_filter, seq_NoDup. Qed.
    Lemma K_len : length K <= D.
    Proof.
      unfold K. rewrite <- (seq_length D 0) at 2. generalize (seq 0 D). intros l.
      induction l as [|x l IH]; simpl; [lia|]. destruct (g x); simpl; lia.
    Qed.
    Lemma K_delta a b : a < length K -> b < length K -> delta R (nth a K 0) (nth b K 0) = delta R a b.
    Proof.
      intros Ha Hb. unfold delta. destruct (Nat.eqb_spec (nth a K 0) (nth b K 0)) as [E|E]; destruct (Nat.eqb_spec a b) as [E2|E2]; auto.
      - exfalso. apply E2. apply K_inj; assumption.
      - exfalso. apply E. subst. reflexivity.
    Qed.
  End K.

  Variable A : mx.
  Variables q0 q1 : list Z.

  Lemma sel_post pr st (g : nat -> bool) : post R T emb CO PT A q0 q1 pr st ->
    post R T emb CO PT A q0 q1 (pr /\ forall c, c < bD st -> g c = false -> wt R T emb (bS st) c = rO)
      (mkbst (colsel (filter g (seq 0 (bD st))) (bU st)) (rowsel (filter g (seq 0 (bD st))) (bV st))
             (map (fun i => nth i (bS st) dT) (filter g (seq 0 (bD st)))) (takez (filter g (seq 0 (bD st))) (bq st))
             (length (filter g (seq 0 (bD st))))).
  Proof.
    intros P. destruct P as [P_wfU P_wfV P_nrU P_ncU P_nrV P_ncV P_lenS P_lenq P_D P_Usp P_Vsp P_prod P_orth P_co P_PT].
    set (D := bD st) in *. set (K := filter g (seq 0 D)).
    assert (Klt := K_lt D g). assert (Klen := K_len D g). assert (Kd := K_delta D g). fold K in Klt, Klen, Kd.
    assert (GU : forall i a, i < nr A -> a < length K -> get (colsel K (bU st)) i a = get (bU st) i (nth a K 0)).
    { intros i a Hi Ha. unfold colsel. rewrite get_tab; [reflexivity|lia|exact Ha]. }
    assert (GV : forall a j, a < length K -> j < nc A -> get (rowsel K (bV st)) a j = get (bV st) (nth a K 0) j).
    { intros a j Ha Hj. unfold rowsel. rewrite get_tab; [reflexivity|exact Ha|lia]. }
    assert (WT : forall a, a < length K -> wt R T emb (map (fun i => nth i (bS st) dT) K) a = wt R T emb (bS st) (nth a K 0)).
    { intros a Ha. rewrite wt_nth by (rewrite map_length; exact Ha). rewrite wt_nth by (rewrite P_lenS; apply Klt; exact Ha).
      rewrite (nth_indep _ dT (nth 0 (bS st) dT)) by (rewrite map_length; exact Ha).
      rewrite (map_nth (fun i => nth i (bS st) dT) K 0 a). reflexivity. }
    constructor; cbn [bU bV bS bq bD]; try apply wf_tab; try assumption; try reflexivity.
    - apply map_length.
    - apply takez_length.
    - lia.
    - intros i a Hi Ha Hnz. unfold colsel in Hi, Ha. rewrite nr_tab in Hi. rewrite nc_tab in Ha.
      rewrite GU in Hnz by lia. rewrite takez_nth by exact Ha. apply P_Usp; [lia|rewrite P_ncU; apply Klt; exact Ha|exact Hnz].
    - intros a j Ha Hj Hnz. unfold rowsel in Ha, Hj. rewrite nr_tab in Ha. rewrite nc_tab in Hj.
      rewrite GV in Hnz by lia. rewrite takez_nth by exact Ha. apply P_Vsp; [rewrite P_nrV; apply Klt; exact Ha|lia|exact Hnz].
    - intros [Hpr Hz] i j Hi Hj. rewrite <- (P_prod Hpr i j Hi Hj).
      rewrite (sumn_select D g).
      + fold K. apply sumn_ext. intros a Ha. rewrite GU, GV, WT by assumption. reflexivity.
      + intros c Hc Hg. rewrite (Hz c Hc Hg). ring.
    - intros k l Hk Hl. rewrite <- Kd by assumption. rewrite <- (P_orth (nth k K 0) (nth l K 0)) by (apply Klt; assumption).
      apply sumn_ext. intros i Hi. rewrite !GU by assumption. reflexivity.
    - intros HCO k l Hk Hl. rewrite <- Kd by assumption. rewrite <- (P_co HCO (nth k K 0) (nth l K 0)) by (apply Klt; assumption).
      apply sumn_ext. intros j Hj. rewrite !GV by assumption. reflexivity.
    - rewrite Forall_forall in *. intros x Hx. apply in_map_iff in Hx. destruct Hx as (c & <- & Hc).
      apply P_PT. apply nth_In. rewrite P_lenS. apply In_nth with (d := 0) in Hc. destruct Hc as (a & Ha & <-). apply Klt. exact Ha.
  Qed.
End Select.

(* ------------------------------------------------------------------ *)
(* C11: bond_ops.qr                                                     *)
(* ------------------------------------------------------------------ *)
Section QRSpec.
  Variable R : cring.
  Add Ring Rring_qrs : (k_rt R).
  Notation rO := (k0 R). Notation rI := (k1 R).
  Infix "+!" := (kadd R) (at level 50, left associativity).
  Infix "*!" := (kmul R) (at level 40, left associativity).
  Notation mx := (mx R).
  Notation cj := (kconj R).

  (* LAPACK's contract for numpy.linalg.qr(B, mode='reduced') *)
  Definition dqr_ok (B : mx) (r : mx * mx) : Prop :=
    let '(Q, Rm) := r in
    wf Q /\ wf Rm /\ nr Q = nr B /\ nc Q = Nat.min (nr B) (nc B) /\
    nr Rm = Nat.min (nr B) (nc B) /\ nc Rm = nc B /\
    mulmx Q Rm = B /\ mulmx (adjmx Q) Q = idmx (Nat.min (nr B) (nc B)).

  Definition one_u (_ : unit) : R := rI.

  Lemma wt_unit (sv : list unit) c : c < length sv -> wt R unit one_u sv c = rI.
  Proof. unfold wt. revert c; induction sv as [|u sv IH]; intros [|c] H; simpl in *; try lia; auto. apply IH. lia. Qed.

  Lemma dqr_fac_ok dqr B : dqr_ok B (dqr B) -> fac_ok R unit one_u False (fun _ => True) B (qr_fac dqr B).
  Proof.
    unfold qr_fac, dqr_ok, fac_ok. destruct (dqr B) as [Q Rm].
    intros (HwQ & HwR & HnrQ & HncQ & HnrR & HncR & HQR & HQQ).
    rewrite repeat_length.
    repeat split; try assumption; try lia.
    - intros i j Hi Hj. rewrite <- HQR. rewrite get_mulmx by lia.
      apply sumn_ext. intros c Hc. rewrite wt_unit by (rewrite repeat_length; exact Hc). ring.
    - intros k l Hk Hl.
      assert (E : get (mulmx (adjmx Q) Q) k l = get (idmx (Nat.min (nr B) (nc B))) k l) by (rewrite HQQ; reflexivity).
      rewrite get_mulmx in E by (rewrite ?nr_adjmx; lia). rewrite get_idmx in E by lia.
      rewrite nc_adjmx, HnrQ in E. unfold delta. rewrite <- E.
      apply sumn_ext. intros i Hi. rewrite get_adjmx by lia. reflexivity.
    - apply Forall_forall. intros; exact I.
  Qed.

  Definition C11_concl (A : mx) (q0 q1 : list Z) (res : mx * mx * list Z) : Prop :=
    let '(Q, Rm, qi) := res in
    wf Q /\ wf Rm /\ nr Q = nr A /\ nc Q = length qi /\ nr Rm = length qi /\ nc Rm = nc A /\
    length qi <= Nat.min (nr A) (nc A) /\
    mulmx Q Rm = A /\ mulmx (adjmx Q) Q = idmx (length qi) /\
    qsp R Q q0 qi /\ qsp R Rm qi q1 /\
    (intersect1d q0 q1 = [] -> length qi = 1 /\ Q = e0col (nr A) /\ Rm = zeromx 1 (nc A) /\ qi = firstn 1 q0).

  Lemma post_mul (A : mx) q0 q1 st : wf A -> post R unit one_u False (fun _ => True) A q0 q1 True st ->
    mulmx (bU st) (bV st) = A /\ mulmx (adjmx (bU st)) (bU st) = idmx (bD st).
  Proof.
    intros HwfA P. destruct P as [P_wfU P_wfV P_nrU P_ncU P_nrV P_ncV P_lenS P_lenq P_D P_Usp P_Vsp P_prod P_orth P_co P_PT].
    split.
    - apply mx_ext; [apply wf_mulmx|exact HwfA| | |]; rewrite ?nr_mulmx, ?nc_mulmx; try assumption.
      intros i j Hi Hj. rewrite get_mulmx by assumption. rewrite P_ncU. rewrite <- (P_prod I) by lia.
      apply sumn_ext. intros c Hc. rewrite wt_unit by lia. ring.
    - apply mx_ext; [apply wf_mulmx|apply wf_idmx| | |]; rewrite ?nr_mulmx, ?nc_mulmx, ?nr_adjmx, ?nr_idmx, ?nc_idmx; try assumption.
      intros k l Hk Hl. rewrite get_mulmx by (rewrite ?nr_adjmx; assumption). rewrite get_idmx by lia.
      rewrite nc_adjmx, P_nrU. rewrite <- P_ncU in *. change (if Nat.eqb k l then rI else rO) with (delta R k l).
      rewrite <- (P_orth k l) by lia.
      apply sumn_ext. intros i Hi. rewrite get_adjmx by lia. reflexivity.
  Qed.

  Lemma valid_in_spec (A : mx) q0 q1 : valid_in A q0 q1 = true ->
    wf A /\ length q0 = nr A /\ length q1 = nc A /\ qsp R A q0 q1.
  Proof.
    unfold valid_in. rewrite !andb_true_iff, !Nat.eqb_eq. intros [[[Hw H0] H1] Hs].
    repeat split; auto. { apply wfb_wf. exact Hw. }
    intros i j Hi Hj Hnz. unfold qsparseb in Hs. rewrite forallb_forall in Hs.
    specialize (Hs i). rewrite forallb_forall in Hs.
    specialize (Hs ltac:(apply in_seq; lia) j ltac:(apply in_seq; lia)).
    apply orb_true_iff in Hs. destruct Hs as [Hs|Hs].
    - apply keqb_spec in Hs. contradiction.
    - apply Z.eqb_eq. exact Hs.
  Qed.

  Lemma disjoint_zero (A : mx) q0 q1 : length q0 = nr A -> length q1 = nc A -> qsp R A q0 q1 ->
    intersect1d q0 q1 = [] -> forall i j, i < nr A -> j < nc A -> get A i j = rO.
  Proof.
    intros H0 H1 Hs Hd i j Hi Hj. destruct (nz_dec R (get A i j)) as [E|E]; [exact E|exfalso].
    assert (Hq := Hs i j Hi Hj E).
    assert (Hin : In (nth i q0 0%Z) (intersect1d q0 q1)).
    { apply intersect1d_In. split; [apply nth_In; lia|rewrite Hq; apply nth_In; lia]. }
    rewrite Hd in Hin. exact Hin.
  Qed.

  Lemma is_zeromx_true (A : mx) : (forall i j, i < nr A -> j < nc A -> get A i j = rO) -> is_zeromx A = true.
  Proof.
    intros H. unfold is_zeromx. apply forallb_forall. intros i Hi. apply forallb_forall. intros j Hj.
    apply in_seq in Hi. apply in_seq in Hj. apply keqb_spec. apply H; lia.
  Qed.

  Theorem block_qr_spec_gen : forall dqr (A : mx) q0 q1,
    valid_in A q0 q1 = true -> 1 <= nr A -> 1 <= nc A ->
    Forall (fun B => dqr_ok B (dqr B)) (block_qr_calls A q0 q1) ->
    exists res, block_qr dqr A q0 q1 = Some res /\ C11_concl A q0 q1 res.
  Proof.
    intros dqr A q0 q1 Hv Hm Hn Hcalls.
    destruct (valid_in_spec A q0 q1 Hv) as (HwfA & Hl0 & Hl1 & HspA).
    unfold block_qr. rewrite Hv. cbn [negb].
    destruct (intersect1d q0 q1) as [|x qs] eqn:Eq.
    - (* no shared charge *)
      assert (Hz := disjoint_zero A q0 q1 Hl0 Hl1 HspA Eq).
      rewrite (is_zeromx_true A Hz). replace (Nat.eqb (nr A) 0) with false by (symmetry; apply Nat.eqb_neq; lia).
      cbn [negb orb]. eexists. split; [reflexivity|].
      unfold C11_concl.
      assert (Hq0 : exists a t, q0 = a :: t) by (destruct q0 as [|a t]; [simpl in Hl0; lia|eauto]).
      destruct Hq0 as (a & t & Eq0). rewrite Eq0. cbn [firstn length].
      repeat split; try apply wf_tab; try reflexivity; try lia.
      + apply mx_ext; [apply wf_mulmx|exact HwfA|reflexivity|reflexivity|].
        rewrite nr_mulmx, nc_mulmx. unfold e0col at 1. rewrite nr_tab, nc_zeromx. intros i j Hi Hj.
        rewrite get_mulmx by (unfold e0col; rewrite ?nr_tab, ?nc_zeromx; assumption).
        rewrite Hz by assumption. apply sumn_zero. intros c Hc. rewrite get_zeromx. ring.
      + apply mx_ext; [apply wf_mulmx|apply wf_idmx|reflexivity|reflexivity|].
        rewrite nr_mulmx, nc_mulmx, nr_adjmx. unfold e0col at 1 2. rewrite nc_tab. intros k l Hk Hl.
        rewrite get_mulmx by (rewrite ?nr_adjmx; unfold e0col; rewrite ?nc_tab; assumption).
        rewrite nc_adjmx. unfold e0col at 1. rewrite nr_tab.
        rewrite (sumn_single R (nr A) 0).
        * rewrite get_adjmx by (unfold e0col; rewrite ?nr_tab, ?nc_tab; lia).
          unfold e0col. rewrite !get_tab by lia. cbn [Nat.eqb]. rewrite kconj_1.
          rewrite get_idmx by lia. assert (k = 0) by lia. assert (l = 0) by lia. subst. cbn [Nat.eqb]. ring.
        * lia.
        * intros i Hi Hne. unfold e0col at 2. rewrite get_tab by lia.
          destruct i; [lia|]. cbn [Nat.eqb]. ring.
      + intros i c Hi Hc Hnz. unfold e0col in Hi, Hc. rewrite nr_tab in Hi. rewrite nc_tab in Hc.
        unfold e0col in Hnz. rewrite get_tab in Hnz by lia. destruct i; [|exfalso; apply Hnz; reflexivity].
        assert (c = 0) by lia. subst. reflexivity.
      + intros c j Hc Hj Hnz. exfalso. apply Hnz. apply get_zeromx.
    - (* shared charges: sort, loop, undo sorting *)
      remember (x :: qs) as qis eqn:Eqis.
      destruct (sel_choice R q0 (nr A) Hl0) as (p0 & i0 & Hp0 & Hi0 & Hinv0 & Eq0 & Hz0 & Hrow0 & _ & Hunrow0 & _).
      destruct (sel_choice R q1 (nc A) Hl1) as (p1 & i1 & Hp1 & Hi1 & Hinv1 & Eq1 & Hz1 & _ & Hcol1 & _ & Huncol1).
      assert (EA : sA (sort_input A q0 q1) = colsel p1 (rowsel p0 A)).
      { unfold sort_input. cbn [sA]. rewrite (Hrow0 A HwfA eq_refl).
        apply Hcol1; [apply wf_tab|reflexivity]. }
      assert (E0 : sq0 (sort_input A q0 q1) = takez p0 q0) by (unfold sort_input; cbn [sq0]; exact Eq0).
      assert (E1 : sq1 (sort_input A q0 q1) = takez p1 q1) by (unfold sort_input; cbn [sq1]; exact Eq1).
      unfold block_qr_calls, block_calls in Hcalls. rewrite Eq, EA, E0, E1 in Hcalls. rewrite EA, E0, E1.
      assert (Hp0' : Permutation p0 (seq 0 (length q0))) by (rewrite Hl0; exact Hp0).
      assert (Hp1' : Permutation p1 (seq 0 (length q1))) by (rewrite Hl1; exact Hp1).
      assert (L0 : length (takez p0 q0) = nr (colsel p1 (rowsel p0 A))) by (eapply lenq0'; eauto).
      assert (L1 : length (takez p1 q1) = nc (colsel p1 (rowsel p0 A))) by (eapply lenq1'; eauto).
      assert (NR : nr (colsel p1 (rowsel p0 A)) = nr A) by (eapply nrA'; eauto).
      assert (NC : nc (colsel p1 (rowsel p0 A)) = nc A) by (eapply ncA'; eauto).
      destruct (loop_ok R unit one_u False (fun _ => True) (qr_fac dqr) (colsel p1 (rowsel p0 A)) (takez p0 q0) (takez p1 q1)
                  L0 L1 Hz0 Hz1 qis) as (st & E & P).
      + rewrite <- Eq. apply intersect1d_sorted.
      + intros y. rewrite <- Eq. rewrite intersect1d_In, (takez_In p0 q0 y Hp0'), (takez_In p1 q1 y Hp1'). tauto.
      + eapply qspA'; eauto.
      + intros y Hy. apply dqr_fac_ok. rewrite Forall_forall in Hcalls. apply Hcalls.
        apply in_map. exact Hy.
      + rewrite E.
        assert (P' : post R unit one_u False (fun _ => True) A q0 q1 True (mkbst (rowsel i0 (bU st)) (colsel i1 (bV st)) (bS st) (bq st) (bD st)))
          by (apply (lift R unit one_u False (fun _ => True) A q0 q1 p0 i0 p1 i1); assumption).
        assert (EU : unperm_rows (sort_input A q0 q1) (bU st) = rowsel i0 (bU st)).
        { unfold unperm_rows, sort_input. cbn [sperm0 sidx0]. apply Hunrow0; [apply (p_wfU _ _ _ _ _ _ _ _ _ _ P)|].
          rewrite (p_nrU _ _ _ _ _ _ _ _ _ _ P). exact NR. }
        assert (EV : unperm_cols (sort_input A q0 q1) (bV st) = colsel i1 (bV st)).
        { unfold unperm_cols, sort_input. cbn [sperm1 sidx1]. apply Huncol1; [apply (p_wfV _ _ _ _ _ _ _ _ _ _ P)|].
          rewrite (p_ncV _ _ _ _ _ _ _ _ _ _ P). exact NC. }
        rewrite EU, EV. eexists. split; [reflexivity|].
        destruct (post_mul A q0 q1 _ HwfA P') as [HM HO].
        destruct P' as [P_wfU P_wfV P_nrU P_ncU P_nrV P_ncV P_lenS P_lenq P_D P_Usp P_Vsp P_prod P_orth P_co P_PT].
        cbn [bU bV bS bq bD] in *.
        unfold C11_concl. rewrite P_lenq.
        repeat split; try assumption; try lia.
        all: exfalso; congruence.
  Qed.
  (* boolean form of the contract, for the non-vacuity examples *)
  Definition dqr_okb (B : mx) (r : mx * mx) : bool :=
    let '(Q, Rm) := r in
    let k := Nat.min (nr B) (nc B) in
    wfb B && wfb Q && wfb Rm && Nat.eqb (nr Q) (nr B) && Nat.eqb (nc Q) k && Nat.eqb (nr Rm) k && Nat.eqb (nc Rm) (nc B)
    && mxeqb (mulmx Q Rm) B && mxeqb (mulmx (adjmx Q) Q) (idmx k).

  Lemma dqr_okb_sound B r : dqr_okb B r = true -> dqr_ok B r.
  Proof.
    destruct r as [Q Rm]. unfold dqr_okb, dqr_ok. rewrite !andb_true_iff, !Nat.eqb_eq.
    intros [[[[[[[[HB HQ] HR] H1] H2] H3] H4] H5] H6].
    repeat split; try assumption; try (apply wfb_wf; assumption).
    - apply mxeqb_true; [apply wf_mulmx|apply wfb_wf; exact HB|exact H5].
    - apply mxeqb_true; [apply wf_mulmx|apply wf_idmx|exact H6].
  Qed.

  Lemma dqr_ok_forallb dqr l : forallb (fun B => dqr_okb B (dqr B)) l = true -> Forall (fun B => dqr_ok B (dqr B)) l.
  Proof. intros H. rewrite forallb_forall in H. apply Forall_forall. intros B HB. apply dqr_okb_sound, H, HB. Qed.
End QRSpec.

(* ------------------------------------------------------------------ *)
(* the boolean comparison used by the correspondence check means what it says *)
(* ------------------------------------------------------------------ *)
Lemma zlist_eqb_eq (a b : list Z) : zlist_eqb a b = true -> a = b.
Proof.
  unfold zlist_eqb. rewrite andb_true_iff, Nat.eqb_eq. intros [Hl H]. revert b Hl H.
  induction a as [|x a IH]; intros [|y b] Hl H; simpl in *; try discriminate; auto.
  apply andb_true_iff in H. destruct H as [H1 H2]. apply Z.eqb_eq in H1. f_equal; auto.
Qed.

Section CheckSound.
  Variable R : cring.
  Notation mx := (mx R).

  Lemma block_loop_wf {T} (fac : mx -> mx * list T * mx) (A : mx) q0 q1 qis st :
    block_loop fac A q0 q1 qis = Some st -> wf (bU st) /\ wf (bV st).
  Proof.
    unfold block_loop. destruct (fold_left _ qis _) as [st'|]; [|discriminate].
    intros E. inversion E. cbn [bU bV]. split; apply wf_tab.
  Qed.

  Lemma unperm_rows_wf (si : sorted_in R) (Q : mx) : wf Q -> wf (unperm_rows si Q).
  Proof. intros H. unfold unperm_rows. destruct (sperm0 si); [apply wf_tab|exact H]. Qed.
  Lemma unperm_cols_wf (si : sorted_in R) (Q : mx) : wf Q -> wf (unperm_cols si Q).
  Proof. intros H. unfold unperm_cols. destruct (sperm1 si); [apply wf_tab|exact H]. Qed.

  Lemma block_qr_wf dqr (A : mx) q0 q1 Q Rm qi : block_qr dqr A q0 q1 = Some (Q, Rm, qi) -> wf Q /\ wf Rm.
  Proof.
    unfold block_qr. destruct (negb (valid_in A q0 q1)); [discriminate|].
    destruct (intersect1d q0 q1) as [|x qs].
    - destruct (negb (is_zeromx A) || Nat.eqb (nr A) 0); [discriminate|]. intros E. inversion E. split; apply wf_tab.
    - destruct (block_loop _ _ _ _ _) as [st|] eqn:EL; [|discriminate]. intros E. inversion E.
      destruct (block_loop_wf _ _ _ _ _ _ EL) as [Hw1 Hw2].
      split; [apply unperm_rows_wf; exact Hw1|apply unperm_cols_wf; exact Hw2].
  Qed.

  (* check_qr = true: the model, run with the recorded table, returns exactly the implementation's (Q, R, qinterm) *)
  Lemma check_qr_sound tbl (A : mx) q0 q1 Q Rm qi :
    check_qr tbl A q0 q1 (Some (Q, Rm, qi)) = true -> block_qr (qr_oracle tbl) A q0 q1 = Some (Q, Rm, qi).
  Proof.
    unfold check_qr. destruct (block_qr (qr_oracle tbl) A q0 q1) as [[[Q' Rm'] qi']|] eqn:E; [|discriminate].
    rewrite !andb_true_iff. intros [[[[[HwQ HwR] HQ] HR] Hq] _].
    destruct (block_qr_wf _ _ _ _ _ _ _ E) as [H1 H2].
    apply mxeqb_true in HQ; [|exact H1|apply wfb_wf; exact HwQ].
    apply mxeqb_true in HR; [|exact H2|apply wfb_wf; exact HwR].
    apply zlist_eqb_eq in Hq. subst. reflexivity.
  Qed.
  Lemma check_qr_sound_none tbl (A : mx) q0 q1 :
    check_qr tbl A q0 q1 None = true -> block_qr (qr_oracle tbl) A q0 q1 = None.
  Proof. unfold check_qr. destruct (block_qr (qr_oracle tbl) A q0 q1) as [[[Q' Rm'] qi']|]; [discriminate|reflexivity]. Qed.
End CheckSound.
