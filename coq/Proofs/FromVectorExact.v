(* C03 — MPS.from_vector at tol = 0 is exact: for every answer of the SVD oracle that reproduces its argument
   (U diag(s) V = M with LAPACK's shapes) on the calls the loop issues, and every answer of the argsort oracle, the model
   succeeds, the result is well-formed with all quantum numbers zero, and as_vector returns the input vector.
   Loop invariant ([fv_loop_spec]): the site tensors produced from the current v (Dl x d^rem) and the final v satisfy
       sum_b (A_i[w_i] ... A_{n-1}[w_{n-1}])[a, b] * vf[b, 0]  =  v[a, position of the word w]. *)
From Coq Require Import ZArith List Bool Lia Arith Ring.
From PT Require Import Base.Scalar Base.Field Base.BigSum Base.Mx Model.Tensor Model.MPSOps Model.BondOps Model.FromVector.
From PT Require Import Proofs.MPSOpsBase Proofs.MPSOpsMul Proofs.MPSOpsDense Proofs.MPSOpsTop Proofs.MPSOpsShape.
From PT Require Import Proofs.MPSOpsSparseFull Proofs.BondOpsRetained Proofs.FromVectorRetained.
Import ListNotations.

Section FVExact.
  Variable F : ofield.
  Notation CF := (Cx F).
  Add Ring Rring_fvexact : (k_rt CF).
  Notation "0" := (k0 CF). Notation "1" := (k1 CF).
  Infix "+" := (kadd CF). Infix "*" := (kmul CF).
  Notation mx := (mx CF).
  Notation site := (site CF).

  Variable dsvd : nat -> mx -> mx * list F * mx.
  Variable srt : nat -> list F -> list nat.

  (* contract of one answer of numpy.linalg.svd(M, full_matrices=False): shapes, and U diag(s) V = M *)
  Definition fv_svd_ok (M : mx) (r : mx * list F * mx) : Prop :=
    let '(u, s, vt) := r in
    let k := Nat.min (nr M) (nc M) in
    nr u = nr M /\ nc u = k /\ length s = k /\ nr vt = k /\ nc vt = nc M /\
    forall i j, (i < nr M)%nat -> (j < nc M)%nat ->
      sumn k (fun l => get u i l * cof (nth l s (f0 F)) * get vt l j) = get M i j.
  Definition fv_call_ok (c : nat * mx) : Prop := fv_svd_ok (snd c) (dsvd (fst c) (snd c)).

  (* ---------- one iteration ---------- *)
  Lemma fv_step d rem' i (v : mx) :
    (0 < d)%nat -> (0 < nr v)%nat -> nc v = (d * d ^ rem')%nat ->
    let M := fv_mat d rem' v in
    fv_svd_ok M (dsvd i M) ->
    let '(u, s, vt) := dsvd i M in
    let idx := fv_idx srt i s (f0 F) in
    let A := fv_site d (nr v) (colsel idx u) in
    let v' := fv_next idx s vt in
    fv_shapes_ok M u s vt idx = true /\
    (0 < length idx)%nat /\ (length idx <= Nat.min (nr v * d) (d ^ rem'))%nat /\
    site_shape d (nr v) (length idx) A = true /\
    nr v' = length idx /\ nc v' = (d ^ rem')%nat /\
    forall a sp c, (a < nr v)%nat -> (sp < d)%nat -> (c < d ^ rem')%nat ->
      sumn (length idx) (fun b => get (sel A sp) a b * get v' b c) = get v a (sp * d ^ rem' + c).
  Proof.
    intros Hd HDl Hcv M. set (m' := (d ^ rem')%nat) in *.
    assert (Hm' : (0 < m')%nat) by (unfold m'; apply Nat.neq_0_lt_0, Nat.pow_nonzero; lia).
    assert (HrM : nr M = (nr v * d)%nat) by reflexivity.
    assert (HcM : nc M = m') by reflexivity.
    destruct (dsvd i M) as [[u s] vt]. unfold fv_svd_ok. rewrite HrM, HcM.
    set (K := Nat.min (nr v * d) m').
    intros (Hru & Hcu & Hls & Hrvt & Hcvt & Hrec).
    assert (HK : (0 < K)%nat) by (unfold K; apply Nat.min_glb_lt; nia).
    cbv zeta.
    set (idx := fv_idx srt i s (f0 F)).
    destruct (fv_idx_bounds F srt i s (f0 F) ltac:(lia)) as (Hi0 & Hi1 & Hi2). fold idx in Hi0, Hi1, Hi2.
    split.
    { unfold fv_shapes_ok. rewrite HrM, HcM. fold K. rewrite Hru, Hcu, Hls, Hrvt, Hcvt, !Nat.eqb_refl. cbn [andb].
      apply forallb_forall. intros l Hl. apply Nat.ltb_lt. rewrite <- Hls. apply Hi2. exact Hl. }
    split; [exact Hi0|]. split; [rewrite <- Hls; exact Hi1|].
    split.
    { unfold fv_site. apply site_shape_stab. intros sp Hsp. unfold colsel. rewrite nc_tab.
      split; [apply wfb_tab|]. split; reflexivity. }
    split; [reflexivity|]. split; [unfold fv_next, rowsel; rewrite !nc_tab; exact Hcvt|].
    intros a sp c Ha Hsp Hc.
    assert (Hr : (a * d + sp < nr v * d)%nat) by (apply flat_lt; assumption).
    set (g := fun l => get u (a * d + sp) l * cof (nth l s (f0 F)) * get vt l c).
    assert (Hg : forall l, (l < length s)%nat -> nth l s (f0 F) = f0 F -> g l = 0).
    { intros l _ El. unfold g. rewrite El. change (cof (f0 F)) with (k0 CF). ring. }
    assert (Hsel := fv_idx_sum F CF srt i s g ltac:(lia) Hg). cbv zeta in Hsel. fold idx in Hsel.
    transitivity (sumn (length idx) (fun b => g (nth b idx 0%nat))).
    { apply sumn_ext. intros b Hb. unfold fv_site. rewrite sel_stab by exact Hsp.
      unfold colsel at 1. rewrite nc_tab. rewrite get_tab by assumption.
      unfold colsel. rewrite get_tab by (rewrite ?Hru; assumption).
      unfold fv_next. rewrite get_tab by (unfold rowsel; rewrite ?nr_tab, ?nc_tab, ?Hcvt; assumption).
      unfold rowsel. rewrite get_tab by (rewrite ?Hcvt; assumption).
      rewrite (nth_map_lt (fun l => nth l s (f0 F)) idx b 0%nat (f0 F) Hb). unfold g. ring. }
    rewrite Hsel. unfold g.
    rewrite Hls. rewrite (Hrec (a * d + sp)%nat c Hr Hc).
    unfold M, fv_mat. rewrite (get_reshape CF) by assumption. fold m'. rewrite Hcv. fold m'.
    destruct (divmod_flat a (sp * m' + c)%nat (d * m')%nat ((a * d + sp) * m' + c)%nat) as [E1 E2].
    { apply flat_lt; assumption. } { lia. }
    rewrite E1, E2. reflexivity.
  Qed.

  (* ---------- the loop ---------- *)
  Lemma fv_loop_spec d : (0 < d)%nat -> forall rem i (v : mx),
    (0 < nr v)%nat -> nc v = (d ^ rem)%nat ->
    Forall fv_call_ok (fv_calls dsvd srt d (f0 F) i rem v) ->
    exists As ks vf, fv_loop dsvd srt d (f0 F) i rem v = Some (As, ks, vf) /\
      length As = rem /\ chain_shape d (nr v :: ks) As = true /\
      nr vf = last (nr v :: ks) 0%nat /\ nc vf = 1%nat /\
      ((0 < rem)%nat -> last (nr v :: ks) 0%nat = 1%nat) /\
      forall a u, (a < nr v)%nat -> (u < d ^ rem)%nat ->
        sumn (last (nr v :: ks) 0%nat)
          (fun b => get (mprod (nr v) (pick As (nth u (words d rem) []))) a b * get vf b 0%nat) = get v a u.
  Proof.
    intros Hd. induction rem as [|rem' IH]; intros i v HDl Hcv Hcalls.
    - exists [], [], v. cbn [fv_loop length chain_shape last Nat.pow] in *.
      split; [reflexivity|]. split; [reflexivity|]. split; [reflexivity|]. split; [reflexivity|]. split; [exact Hcv|].
      split; [lia|]. intros a u Ha Hu. assert (u = 0%nat) by lia. subst u. cbn [words nth pick mprod].
      transitivity (sumn (nr v) (fun b => (if Nat.eqb b a then 1 else 0) * get v b 0%nat)).
      + apply sumn_ext. intros b Hb. rewrite get_idmx by assumption. rewrite (Nat.eqb_sym a b). reflexivity.
      + apply (sumn_delta_l CF (nr v) a (fun b => get v b 0%nat)). exact Ha.
    - cbn [fv_calls fv_loop] in *. change (d ^ S rem')%nat with (d * d ^ rem')%nat in *.
      set (M := fv_mat d rem' v) in *.
      pose proof (fv_step d rem' i v Hd HDl Hcv) as Hstep. cbv zeta in Hstep. fold M in Hstep.
      destruct (dsvd i M) as [[uu s] vt] eqn:Ed.
      set (idx := fv_idx srt i s (f0 F)) in *.
      pose proof (Forall_inv Hcalls) as Hc0. pose proof (Forall_inv_tail Hcalls) as Hct.
      unfold fv_call_ok in Hc0. cbn [fst snd] in Hc0. rewrite Ed in Hc0.
      destruct (Hstep Hc0) as (Hok & Hk0 & Hk1 & HA & Hrv' & Hcv' & Hsum).
      rewrite Hok in *.
      set (A := fv_site d (nr v) (colsel idx uu)) in *. set (v' := fv_next idx s vt) in *.
      destruct (IH (S i) v' ltac:(lia) Hcv' Hct) as (As & ks & vf & EL & HlenA & HS & Hrvf & Hcvf & Hlast & Hinv).
      rewrite EL. exists (A :: As), (length idx :: ks), vf. rewrite Hrv' in *.
      split; [reflexivity|]. split; [simpl; lia|].
      split; [rewrite chain_shape_cons, HA, HS; reflexivity|].
      rewrite (last_cons_cons (nr v)).
      split; [exact Hrvf|]. split; [exact Hcvf|].
      assert (Hl1 : last (length idx :: ks) 0%nat = 1%nat).
      { destruct rem' as [|rem'']; [|apply Hlast; lia].
        destruct As; [|discriminate HlenA]. destruct ks as [|? ?]; [|discriminate HS].
        cbn [last]. cbn [Nat.pow] in Hk1. lia. }
      split; [intros _; exact Hl1|].
      intros a u Ha Hu.
      set (m' := (d ^ rem')%nat) in *.
      assert (Hm' : (0 < m')%nat) by (unfold m'; apply Nat.neq_0_lt_0, Nat.pow_nonzero; lia).
      destruct (divmod_lt d m' u Hu) as [Hsp Hu1].
      set (sp := (u / m')%nat) in *. set (u1 := (u mod m')%nat) in *.
      assert (Eu : u = (sp * m' + u1)%nat) by (unfold sp, u1; rewrite (Nat.div_mod u m') at 1 by lia; lia).
      rewrite Eu. unfold m'. rewrite nth_words_S by assumption. fold m'.
      set (w := nth u1 (words d rem') []).
      change (pick (A :: As) (sp :: w)) with (sel A sp :: pick As w).
      change (mprod (nr v) (sel A sp :: pick As w)) with (mulmx (sel A sp) (mprod (nc (sel A sp)) (pick As w))).
      destruct (site_shape_sel _ _ _ _ _ sp HA Hsp) as (_ & HrA & HcA). rewrite HcA.
      set (P := mprod (length idx) (pick As w)).
      assert (Hw : word_ok d (length As) w) by (rewrite HlenA; apply nth_words_ok; exact Hu1).
      assert (HcP : nc P = last (length idx :: ks) 0%nat).
      { pose proof (mchain_pick CF d (length idx :: ks) As w HS Hw) as Hc.
        destruct (mprod_shape CF _ _ Hc) as [_ Hcc]. exact Hcc. }
      transitivity (sumn (length idx) (fun b' => get (sel A sp) a b' *
                      sumn (last (length idx :: ks) 0%nat) (fun b => get P b' b * get vf b 0%nat))).
      { transitivity (sumn (last (length idx :: ks) 0%nat) (fun b =>
                        sumn (length idx) (fun b' => get (sel A sp) a b' * get P b' b * get vf b 0%nat))).
        - apply sumn_ext. intros b Hb. rewrite get_mulmx by (rewrite ?HrA, ?HcP; assumption).
          rewrite HcA, <- sumn_scal_r. reflexivity.
        - rewrite sumn_exch. apply sumn_ext. intros b' Hb'. rewrite <- sumn_scal_l.
          apply sumn_ext. intros b Hb. ring. }
      transitivity (sumn (length idx) (fun b' => get (sel A sp) a b' * get v' b' u1)).
      { apply sumn_ext. intros b' Hb'. f_equal. apply Hinv; assumption. }
      apply Hsum; assumption.
  Qed.

  (* ---------- the scalar absorbed into the last tensor ---------- *)
  Lemma sel_map_scalemx (c : CF) (A : site) sp : sel (map (scalemx c) A) sp = scalemx c (sel A sp).
  Proof. unfold sel. change (zeromx 0 0) with (scalemx c (@zeromx CF 0 0)) at 1. apply map_nth. Qed.

  Lemma chain_shape_scale_last d (c : CF) (As : list site) : forall Ds,
    chain_shape d Ds As = true -> chain_shape d Ds (scale_last c As) = true.
  Proof.
    induction As as [|A As IH]; intros Ds H; [exact H|].
    destruct Ds as [|Dl [|Dr Ds]]; [discriminate H | discriminate H |].
    rewrite chain_shape_cons in H. apply andb_true_iff in H. destruct H as [HA H].
    destruct As as [|A2 As].
    - cbn [scale_last]. rewrite chain_shape_cons. apply andb_true_iff. split; [|exact H].
      unfold site_shape in *. apply andb_true_iff in HA. destruct HA as [Hl Hf].
      rewrite map_length, Hl. cbn [andb]. apply forallb_forall. intros X HX. apply in_map_iff in HX.
      destruct HX as (Y & <- & HY). rewrite forallb_forall in Hf. specialize (Hf Y HY).
      rewrite !andb_true_iff in Hf. destruct Hf as [[_ Hr] Hc].
      unfold scalemx at 1. rewrite wfb_tab. cbn [andb]. rewrite nr_scalemx, nc_scalemx, Hr, Hc. reflexivity.
    - change (scale_last c (A :: A2 :: As)) with (A :: scale_last c (A2 :: As)).
      rewrite chain_shape_cons, HA. cbn [andb]. apply IH. exact H.
  Qed.

  Lemma length_scale_last (c : CF) (As : list site) : length (scale_last c As) = length As.
  Proof.
    induction As as [|A As IH]; [reflexivity|]. destruct As as [|A2 As]; [reflexivity|].
    change (scale_last c (A :: A2 :: As)) with (A :: scale_last c (A2 :: As)). simpl length in *. rewrite IH. reflexivity.
  Qed.

  Lemma mprod_scale_last d (c : CF) (As : list site) : forall Ds w n0,
    chain_shape d Ds As = true -> As <> [] -> word_ok d (length As) w ->
    mprod n0 (pick (scale_last c As) w) = scalemx c (mprod n0 (pick As w)).
  Proof.
    induction As as [|A As IH]; intros Ds w n0 H Hne Hw; [contradiction|].
    destruct Ds as [|Dl [|Dr Ds]]; [discriminate H | discriminate H |].
    rewrite chain_shape_cons in H. apply andb_true_iff in H. destruct H as [HA H].
    destruct Hw as [Hlw Hfw]. destruct w as [|sp w]; [discriminate Hlw|].
    pose proof (Forall_inv Hfw) as Hsp. pose proof (Forall_inv_tail Hfw) as Hfw'. cbv beta in Hsp.
    destruct (site_shape_sel _ _ _ _ _ sp HA Hsp) as (wA & rA & cA).
    destruct As as [|A2 As].
    - cbn [scale_last pick]. rewrite sel_map_scalemx.
      destruct w; cbn [mprod]; rewrite nc_scalemx; apply mulmx_scalemx_l.
    - change (scale_last c (A :: A2 :: As)) with (A :: scale_last c (A2 :: As)).
      change (pick (A :: scale_last c (A2 :: As)) (sp :: w)) with (sel A sp :: pick (scale_last c (A2 :: As)) w).
      change (pick (A :: A2 :: As) (sp :: w)) with (sel A sp :: pick (A2 :: As) w).
      cbn [mprod].
      assert (Hw' : word_ok d (length (A2 :: As)) w) by (split; [simpl in *; lia|exact Hfw']).
      rewrite (IH (Dr :: Ds) w (nc (sel A sp)) H ltac:(discriminate) Hw').
      apply mulmx_scalemx_r.
      pose proof (mchain_pick CF d (Dr :: Ds) (A2 :: As) w H Hw') as Hc.
      destruct (mprod_shape CF _ _ Hc) as [Hr _]. cbn [hd] in Hr.
      rewrite cA. destruct w as [|s2 w2]; [destruct Hw' as [Hl' _]; discriminate Hl'|].
      cbn [pick mprod] in *. rewrite nr_mulmx in *. symmetry. exact Hr.
  Qed.

  (* ---------- the theorem ---------- *)
  Theorem from_vector_exact d n (vec : list CF) :
    (0 < d)%nat -> (0 < n)%nat -> length vec = (d ^ n)%nat ->
    Forall fv_call_ok (from_vector_calls dsvd srt d n vec (f0 F)) ->
    exists p, from_vector dsvd srt d n vec (f0 F) = Some p /\
      mps_wf p = true /\ length (m_A p) = n /\
      m_qd p = repeat 0%Z d /\ (forall q, In q (m_qD p) -> forall x, In x q -> x = 0%Z) /\
      as_vector (m_A p) = Some vec.
  Proof.
    intros Hd Hn Hlen Hcalls. unfold from_vector, from_vector_calls in *.
    destruct d as [|d']; [lia|]. destruct n as [|n']; [lia|]. cbn [Nat.eqb orb].
    set (d := S d') in *. set (n := S n') in *.
    rewrite Hlen, Nat.eqb_refl. cbn [negb].
    assert (Hr0 : nr (fv_row vec) = 1%nat) by reflexivity.
    assert (Hc0 : nc (fv_row vec) = (d ^ n)%nat) by (unfold fv_row; rewrite nc_tab; exact Hlen).
    destruct (fv_loop_spec d Hd n 0%nat (fv_row vec) ltac:(rewrite Hr0; lia) Hc0 Hcalls)
      as (As & ks & vf & EL & HlenA & HS & Hrvf & Hcvf & Hlast & Hinv).
    rewrite EL. rewrite Hr0 in *. rewrite (Hlast Hn) in *. rewrite Hrvf, Hcvf. cbn [Nat.eqb andb].
    set (c := get vf 0%nat 0%nat).
    eexists. split; [reflexivity|].
    assert (Hbd : bdims ([0%Z] :: map (repeat 0%Z) ks) = 1%nat :: ks).
    { unfold bdims. cbn [map length]. f_equal. rewrite map_map.
      rewrite (map_ext _ (fun k => k)) by (intros k; apply repeat_length). apply map_id. }
    assert (Hwf : mps_wf (mkmps (repeat 0%Z d) ([0%Z] :: map (repeat 0%Z) ks) (scale_last c As)) = true).
    { unfold mps_wf. cbn [m_qd m_qD m_A]. rewrite Hbd, repeat_length.
      rewrite (chain_shape_scale_last d c As _ HS). unfold bdim1. cbn [hd]. rewrite (Hlast Hn).
      rewrite length_scale_last, HlenA. reflexivity. }
    split; [exact Hwf|]. cbn [m_qd m_qD m_A].
    split; [rewrite length_scale_last; exact HlenA|].
    split; [reflexivity|].
    split.
    { intros q [<-|Hq]; [intros x [<-|[]]; reflexivity|].
      apply in_map_iff in Hq. destruct Hq as (k & <- & _). intros x Hx. apply repeat_spec in Hx. exact Hx. }
    pose proof (as_vector_words CF _ Hwf) as Hav. cbn [m_qd m_qD m_A] in Hav. rewrite Hav.
    rewrite repeat_length, length_scale_last, HlenA. f_equal.
    apply (list_eq_nth 0).
    { rewrite map_length, length_words. symmetry. exact Hlen. }
    rewrite map_length, length_words. intros k Hk.
    rewrite (nth_indep _ 0 (amp (scale_last c As) [])) by (rewrite map_length, length_words; exact Hk).
    rewrite (map_nth (amp (scale_last c As))).
    set (w := nth k (words d n) []).
    assert (Hw : word_ok d (length As) w) by (rewrite HlenA; apply nth_words_ok; exact Hk).
    assert (Hne : As <> []) by (intros E; rewrite E in HlenA; simpl in HlenA; lia).
    unfold amp. rewrite (mprod_scale_last d c As _ w 1%nat HS Hne Hw).
    pose proof (mchain_pick CF d (1%nat :: ks) As w HS Hw) as Hc.
    destruct (mprod_shape CF _ _ Hc) as [HrP HcP]. cbn [hd] in HrP, HcP. rewrite (Hlast Hn) in HcP.
    rewrite get_scalemx by lia.
    specialize (Hinv 0%nat k ltac:(lia) Hk). fold w in Hinv. cbn [sumn] in Hinv.
    unfold fv_row in Hinv. rewrite get_tab in Hinv by lia.
    rewrite <- Hinv. unfold c. ring.
  Qed.

  (* ---------- the contract as an executable predicate (used by the non-vacuity example) ---------- *)
  Definition fv_svd_okb (M : mx) (r : mx * list F * mx) : bool :=
    let '(u, s, vt) := r in
    let k := Nat.min (nr M) (nc M) in
    Nat.eqb (nr u) (nr M) && Nat.eqb (nc u) k && Nat.eqb (length s) k && Nat.eqb (nr vt) k && Nat.eqb (nc vt) (nc M) &&
    forallb (fun i => forallb (fun j =>
      keqb CF (sumn k (fun l => get u i l * cof (nth l s (f0 F)) * get vt l j)) (get M i j)) (seq 0 (nc M))) (seq 0 (nr M)).
  Definition fv_call_okb (c : nat * mx) : bool := fv_svd_okb (snd c) (dsvd (fst c) (snd c)).

  Lemma fv_call_okb_ok (calls : list (nat * mx)) : forallb fv_call_okb calls = true -> Forall fv_call_ok calls.
  Proof.
    intros H. apply Forall_forall. intros c Hc. rewrite forallb_forall in H. specialize (H c Hc).
    unfold fv_call_okb, fv_call_ok, fv_svd_okb, fv_svd_ok in *. destruct (dsvd (fst c) (snd c)) as [[u s] vt].
    rewrite !andb_true_iff, !Nat.eqb_eq in H. destruct H as [[[[[H1 H2] H3] H4] H5] H6].
    repeat (split; [assumption|]). intros i j Hi Hj. rewrite forallb_forall in H6.
    specialize (H6 i ltac:(apply in_seq; lia)). rewrite forallb_forall in H6.
    apply (keqb_spec CF). apply H6. apply in_seq. lia.
  Qed.
End FVExact.

Arguments fv_svd_ok {F} M r. Arguments fv_call_ok {F} dsvd c.
Arguments fv_svd_okb {F} M r. Arguments fv_call_okb {F} dsvd c.

(* ---------- example data for the non-vacuity check: d = 2, n = 2, a vector of rank 2 with rational SVDs ----------
   v = (9/5, -16/5, 12/5, 12/5):  [[9/5, -16/5], [12/5, 12/5]] = [[3/5, -4/5], [4/5, 3/5]] diag(3, 4) I,
   then diag(3, 4) reshaped to a column (3, 0, 0, 4)^T = (3/5, 0, 0, 4/5)^T * 5 * (1). *)
From Coq Require Import QArith Qcanon.
Definition fq (n : Z) (dn : positive) : Cx QcF := (Q2Qc (Qmake n dn), Q2Qc (Qmake 0 1)).
Definition fr (n : Z) (dn : positive) : QcF := Q2Qc (Qmake n dn).
Definition fvx_vec : list (Cx QcF) := [fq 9 5; fq (-16) 5; fq 12 5; fq 12 5].
Definition fvx_zero : list (Cx QcF) := [fq 0 1; fq 0 1; fq 0 1; fq 0 1].
Definition fvx_svd (i : nat) (_ : mx (Cx QcF)) : mx (Cx QcF) * list QcF * mx (Cx QcF) :=
  match i with
  | O => (mkmx 2 2 [[fq 3 5; fq (-4) 5]; [fq 4 5; fq 3 5]], [fr 3 1; fr 4 1], mkmx 2 2 [[fq 1 1; fq 0 1]; [fq 0 1; fq 1 1]])
  | _ => (mkmx 4 1 [[fq 3 5]; [fq 0 1]; [fq 0 1]; [fq 4 5]], [fr 5 1], mkmx 1 1 [[fq 1 1]])
  end.
(* answers for the zero vector: singular values 0, 0 and 0 *)
Definition fvx_svd0 (i : nat) (_ : mx (Cx QcF)) : mx (Cx QcF) * list QcF * mx (Cx QcF) :=
  match i with
  | O => (mkmx 2 2 [[fq 1 1; fq 0 1]; [fq 0 1; fq 1 1]], [fr 0 1; fr 0 1], mkmx 2 2 [[fq 1 1; fq 0 1]; [fq 0 1; fq 1 1]])
  | _ => (mkmx 2 1 [[fq 1 1]; [fq 0 1]], [fr 0 1], mkmx 1 1 [[fq 1 1]])
  end.
(* an argsort answer that is not even sorted: the theorem does not depend on it *)
Definition fvx_srt (i : nat) (_ : list QcF) : list nat := match i with O => [1; 0]%nat | _ => [0%nat] end.
