(* C04 — shape predicates and entry formulas of the contraction steps of Model/Operation.v:
   each step, at an in-range position, is an explicit nested sum over the entries of its arguments. *)
From Coq Require Import Arith List Lia Ring Setoid Morphisms Bool.
From PT Require Import Base.Scalar Base.BigSum Base.Mx Model.Tensor Model.Operation Proofs.OperationSums.
Import ListNotations.

Section Entries.
  Variable R : cring.
  Add Ring Rring_c04_entries : (k_rt R).
  Infix "*" := (kmul R).
  Notation site := (site R).
  Notation osite := (osite R).
  Notation env := (env R).
  Notation mx := (mx R).
  Notation cj := (kconj R).

  (* Prop-level shapes (only in-range positions are ever read, so well-formedness of [dat] is not needed) *)
  Definition site_ok (d Dl Dr : nat) (A : site) : Prop :=
    length A = d /\ forall s, s < d -> nr (sel A s) = Dl /\ nc (sel A s) = Dr.
  Definition osite_ok (d Dl Dr : nat) (W : osite) : Prop :=
    length W = d /\ forall s t, s < d -> t < d -> nr (osel W s t) = Dl /\ nc (osel W s t) = Dr.
  Definition env_ok (Dw Da Db : nat) (E : env) : Prop :=
    length E = Dw /\ forall w, w < Dw -> nr (esel E w) = Da /\ nc (esel E w) = Db.

  Lemma site_ok_sdl d Dl Dr A : 0 < d -> site_ok d Dl Dr A -> sdl A = Dl /\ sdr A = Dr /\ length A = d.
  Proof. intros Hd [Hl H]. unfold sdl, sdr. destruct (H 0 Hd). auto. Qed.
  Lemma osite_ok_odl d Dl Dr W : 0 < d -> osite_ok d Dl Dr W -> odl W = Dl /\ odr W = Dr /\ length W = d.
  Proof. intros Hd [Hl H]. unfold odl, odr. destruct (H 0 0 Hd Hd). auto. Qed.
  Lemma env_ok_edl Dw Da Db E : 0 < Dw -> env_ok Dw Da Db E -> edl E = Da /\ edr E = Db /\ length E = Dw.
  Proof. intros Hd [Hl H]. unfold edl, edr. destruct (H 0 Hd). auto. Qed.

  Lemma site_shape_ok d Dl Dr A : site_shape d Dl Dr A = true -> site_ok d Dl Dr A.
  Proof.
    unfold site_shape, site_ok. rewrite andb_true_iff, Nat.eqb_eq, forallb_forall. intros [Hl H].
    split; [exact Hl|]. intros s Hs. unfold sel.
    assert (Hin : In (nth s A (zeromx 0 0)) A) by (apply nth_In; lia).
    apply H in Hin. rewrite !andb_true_iff, !Nat.eqb_eq in Hin. tauto.
  Qed.
  Lemma osite_shape_ok d Dl Dr W : osite_shape d Dl Dr W = true -> osite_ok d Dl Dr W.
  Proof.
    unfold osite_shape, osite_ok. rewrite andb_true_iff, Nat.eqb_eq, forallb_forall. intros [Hl H].
    split; [exact Hl|]. intros s t Hs Ht. unfold osel.
    assert (Hin : In (nth s W []) W) by (apply nth_In; lia).
    apply H in Hin. apply site_shape_ok in Hin. destruct Hin as [_ Hin]. apply (Hin t Ht).
  Qed.

  Ltac shp H Hd := let a := fresh in let b := fresh in let c := fresh in
    destruct (H Hd) as (a & b & c); rewrite ?a, ?b, ?c in *.

  (* ---- contraction_step_right:  sum_s A[s] T B[s]^H ---- *)
  Lemma get_step_right d Dal Dar Dbl Dbr A B T a b :
    0 < d -> site_ok d Dal Dar A -> site_ok d Dbl Dbr B -> nr T = Dar -> nc T = Dbr -> a < Dal -> b < Dbl ->
    get (contraction_step_right A B T) a b =
    sumn d (fun s => sumn Dbr (fun c =>
      sumn Dar (fun c' => get (sel A s) a c' * get T c' c) * cj (get (sel B s) b c))).
  Proof.
    intros Hd HA HB HrT HcT Ha Hb.
    destruct (site_ok_sdl _ _ _ _ Hd HA) as (E1 & E2 & E3). destruct (site_ok_sdl _ _ _ _ Hd HB) as (E4 & E5 & E6).
    unfold contraction_step_right. cbv zeta. rewrite E1, E4, E3, HcT. rewrite get_tab by assumption.
    apply sumn_ext; intros s Hs. apply sumn_ext; intros c Hc.
    unfold tabl. rewrite (nth_map_seq mx0) by exact Hs.
    destruct HA as [_ HA]. destruct (HA s Hs) as [F1 F2].
    rewrite get_mulmx by lia. rewrite F2. reflexivity.
  Qed.

  Lemma shape_step_right (A B : site) (T : mx) : nr (contraction_step_right A B T) = sdl A /\ nc (contraction_step_right A B T) = sdl B.
  Proof. split; reflexivity. Qed.

  (* ---- contraction_step_left:  sum_s A[s]^T L conj(B[s]) ---- *)
  Lemma get_step_left d Dal Dar Dbl Dbr A B L c' c :
    0 < d -> site_ok d Dal Dar A -> site_ok d Dbl Dbr B -> nr L = Dal -> nc L = Dbl -> c' < Dar -> c < Dbr ->
    get (contraction_step_left A B L) c' c =
    sumn d (fun s => sumn Dal (fun a => get (sel A s) a c' *
      sumn Dbl (fun b => get L a b * cj (get (sel B s) b c)))).
  Proof.
    intros Hd HA HB HrL HcL Hc' Hc.
    destruct (site_ok_sdl _ _ _ _ Hd HA) as (E1 & E2 & E3). destruct (site_ok_sdl _ _ _ _ Hd HB) as (E4 & E5 & E6).
    unfold contraction_step_left. cbv zeta. rewrite E1, E2, E3, E5, HrL, HcL. rewrite get_tab by assumption.
    apply sumn_ext; intros s Hs. apply sumn_ext; intros a Ha.
    unfold tabl. rewrite (nth_map_seq mx0) by exact Hs. rewrite get_tab by assumption. reflexivity.
  Qed.

  (* ---- contraction_operator_step_right ---- *)
  Lemma get_opstep_right d Dal Dar Dbl Dbr Dwl Dwr A B W E wl a b :
    0 < d -> 0 < Dwr -> site_ok d Dal Dar A -> site_ok d Dbl Dbr B -> osite_ok d Dwl Dwr W -> env_ok Dwr Dar Dbr E ->
    wl < Dwl -> a < Dal -> b < Dbl ->
    get (esel (contraction_operator_step_right A B W E) wl) a b =
    sumn d (fun s => sumn Dbr (fun c =>
      sumn d (fun t => sumn Dwr (fun wr => get (osel W s t) wl wr *
        sumn Dar (fun c' => get (sel A t) a c' * get (esel E wr) c' c))) * cj (get (sel B s) b c))).
  Proof.
    intros Hd Hw HA HB HW HE Hwl Ha Hb.
    destruct (site_ok_sdl _ _ _ _ Hd HA) as (E1 & E2 & E3). destruct (site_ok_sdl _ _ _ _ Hd HB) as (E4 & E5 & E6).
    destruct (osite_ok_odl _ _ _ _ Hd HW) as (E7 & E8 & E9). destruct (env_ok_edl _ _ _ _ Hw HE) as (G1 & G2 & G3).
    unfold contraction_operator_step_right. cbv zeta. rewrite E1, E3, E4, E7, E9, G2, G3.
    unfold esel at 1. unfold tabl at 1. rewrite (nth_map_seq (zeromx 0 0)) by exact Hwl.
    rewrite get_tab by assumption.
    apply sumn_ext; intros s Hs. apply sumn_ext; intros c Hc. f_equal.
    unfold tabl. rewrite (nth_map_seq []) by exact Hs. rewrite (nth_map_seq mx0) by exact Hwl.
    rewrite get_tab by assumption.
    apply sumn_ext; intros t Ht. apply sumn_ext; intros wr Hwr. f_equal.
    rewrite (nth_map_seq []) by exact Ht. rewrite (nth_map_seq mx0) by exact Hwr.
    destruct HA as [_ HA]. destruct (HA t Ht) as [F1 F2]. destruct HE as [_ HE]. destruct (HE wr Hwr) as [F3 F4].
    rewrite get_mulmx by lia. rewrite F2. reflexivity.
  Qed.

  Lemma shape_opstep_right d Dal Dar Dbl Dbr Dwl Dwr A B W E :
    0 < d -> site_ok d Dal Dar A -> site_ok d Dbl Dbr B -> osite_ok d Dwl Dwr W ->
    env_ok Dwl Dal Dbl (contraction_operator_step_right A B W E).
  Proof.
    intros Hd HA HB HW.
    destruct (site_ok_sdl _ _ _ _ Hd HA) as (E1 & E2 & E3). destruct (site_ok_sdl _ _ _ _ Hd HB) as (E4 & E5 & E6).
    destruct (osite_ok_odl _ _ _ _ Hd HW) as (E7 & E8 & E9).
    unfold contraction_operator_step_right. cbv zeta. rewrite E1, E4, E7. split.
    - unfold tabl. rewrite map_length, seq_length. reflexivity.
    - intros w Hwl. unfold esel, tabl. rewrite (nth_map_seq (zeromx 0 0)) by exact Hwl. split; reflexivity.
  Qed.

  (* ---- contraction_operator_step_left ---- *)
  Lemma get_opstep_left d Dal Dar Dbl Dbr Dwl Dwr A B W L wr c' c :
    0 < d -> 0 < Dwl -> site_ok d Dal Dar A -> site_ok d Dbl Dbr B -> osite_ok d Dwl Dwr W -> env_ok Dwl Dal Dbl L ->
    wr < Dwr -> c' < Dar -> c < Dbr ->
    get (esel (contraction_operator_step_left A B W L) wr) c' c =
    sumn d (fun t => sumn Dal (fun a => get (sel A t) a c' *
      sumn d (fun s => sumn Dwl (fun wl => get (osel W s t) wl wr *
        sumn Dbl (fun b => get (esel L wl) a b * cj (get (sel B s) b c)))))).
  Proof.
    intros Hd Hw HA HB HW HL Hwr Hc' Hc.
    destruct (site_ok_sdl _ _ _ _ Hd HA) as (E1 & E2 & E3). destruct (site_ok_sdl _ _ _ _ Hd HB) as (E4 & E5 & E6).
    destruct (osite_ok_odl _ _ _ _ Hd HW) as (E7 & E8 & E9). destruct (env_ok_edl _ _ _ _ Hw HL) as (G1 & G2 & G3).
    unfold contraction_operator_step_left. cbv zeta. rewrite E1, E2, E3, E5, E6, E8, G1, G2, G3.
    unfold esel at 1. unfold tabl at 1. rewrite (nth_map_seq (zeromx 0 0)) by exact Hwr.
    rewrite get_tab by assumption.
    apply sumn_ext; intros t Ht. apply sumn_ext; intros a Ha. f_equal.
    unfold tabl. rewrite (nth_map_seq []) by exact Ht. rewrite (nth_map_seq mx0) by exact Hwr.
    rewrite get_tab by assumption.
    apply sumn_ext; intros s Hs. apply sumn_ext; intros wl Hwl. f_equal.
    rewrite (nth_map_seq []) by exact Hwl. rewrite (nth_map_seq mx0) by exact Hs.
    rewrite get_tab by assumption. reflexivity.
  Qed.

  Lemma shape_opstep_left d Dal Dar Dbl Dbr Dwl Dwr A B W L :
    0 < d -> site_ok d Dal Dar A -> site_ok d Dbl Dbr B -> osite_ok d Dwl Dwr W ->
    env_ok Dwr Dar Dbr (contraction_operator_step_left A B W L).
  Proof.
    intros Hd HA HB HW.
    destruct (site_ok_sdl _ _ _ _ Hd HA) as (E1 & E2 & E3). destruct (site_ok_sdl _ _ _ _ Hd HB) as (E4 & E5 & E6).
    destruct (osite_ok_odl _ _ _ _ Hd HW) as (E7 & E8 & E9).
    unfold contraction_operator_step_left. cbv zeta. rewrite E2, E5, E8. split.
    - unfold tabl. rewrite map_length, seq_length. reflexivity.
    - intros w Hw. unfold esel, tabl. rewrite (nth_map_seq (zeromx 0 0)) by exact Hw. split; reflexivity.
  Qed.

  (* ---- contraction_operator_density_step_right ---- *)
  Lemma get_density_step_right d Dal Dar Dwl Dwr A W T a wl :
    0 < d -> osite_ok d Dal Dar A -> osite_ok d Dwl Dwr W -> nr T = Dar -> nc T = Dwr -> a < Dal -> wl < Dwl ->
    get (contraction_operator_density_step_right A W T) a wl =
    sumn d (fun s => sumn d (fun t => sumn Dwr (fun r' =>
      sumn Dar (fun r => get (osel A s t) a r * get T r r') * get (osel W t s) wl r'))).
  Proof.
    intros Hd HA HW HrT HcT Ha Hwl.
    destruct (osite_ok_odl _ _ _ _ Hd HA) as (E1 & E2 & E3). destruct (osite_ok_odl _ _ _ _ Hd HW) as (E7 & E8 & E9).
    unfold contraction_operator_density_step_right. cbv zeta. rewrite E1, E3, E7, HcT.
    rewrite get_tab by assumption.
    apply sumn_ext; intros s Hs. apply sumn_ext; intros t Ht. apply sumn_ext; intros r' Hr'. f_equal.
    unfold tabl. rewrite (nth_map_seq []) by exact Hs. rewrite (nth_map_seq mx0) by exact Ht.
    destruct HA as [_ HA]. destruct (HA s t Hs Ht) as [F1 F2].
    rewrite get_mulmx by lia. rewrite F2. reflexivity.
  Qed.

  (* ---- apply_local_hamiltonian ---- *)
  Lemma get_local_hamiltonian d Dal Dar Dbl Dbr Dwl Dwr L E W X s b c :
    0 < d -> 0 < Dwl -> 0 < Dwr -> site_ok d Dal Dar X -> osite_ok d Dwl Dwr W ->
    env_ok Dwl Dal Dbl L -> env_ok Dwr Dar Dbr E -> s < d -> b < Dbl -> c < Dbr ->
    get (sel (apply_local_hamiltonian L E W X) s) b c =
    sumn Dal (fun a => sumn Dwl (fun wl =>
      sumn d (fun t => sumn Dwr (fun wr => get (osel W s t) wl wr *
        sumn Dar (fun c' => get (sel X t) a c' * get (esel E wr) c' c))) * get (esel L wl) a b)).
  Proof.
    intros Hd Hwl Hwr HX HW HL HE Hs Hb Hc.
    destruct (site_ok_sdl _ _ _ _ Hd HX) as (E1 & E2 & E3).
    destruct (osite_ok_odl _ _ _ _ Hd HW) as (E7 & E8 & E9).
    destruct (env_ok_edl _ _ _ _ Hwl HL) as (G1 & G2 & G3). destruct (env_ok_edl _ _ _ _ Hwr HE) as (G4 & G5 & G6).
    unfold apply_local_hamiltonian. cbv zeta. rewrite E1, E3, E7, E9, G2, G5, G6.
    unfold sel at 1. unfold tabl at 1. rewrite (nth_map_seq (zeromx 0 0)) by exact Hs.
    rewrite get_tab by assumption.
    apply sumn_ext; intros a Ha. apply sumn_ext; intros wl Hwl'. f_equal.
    unfold tabl. rewrite (nth_map_seq []) by exact Hs. rewrite (nth_map_seq mx0) by exact Hwl'.
    rewrite get_tab by assumption.
    apply sumn_ext; intros t Ht. apply sumn_ext; intros wr Hwr'. f_equal.
    rewrite (nth_map_seq []) by exact Ht. rewrite (nth_map_seq mx0) by exact Hwr'.
    destruct HX as [_ HX]. destruct (HX t Ht) as [F1 F2]. destruct HE as [_ HE]. destruct (HE wr Hwr') as [F3 F4].
    rewrite get_mulmx by lia. rewrite F2. reflexivity.
  Qed.

  (* ---- apply_local_bond_contraction ---- *)
  Lemma get_local_bond Dal Dar Dbl Dbr Dw L E C b c :
    0 < Dw -> env_ok Dw Dal Dbl L -> env_ok Dw Dar Dbr E -> nr C = Dal -> nc C = Dar -> b < Dbl -> c < Dbr ->
    get (apply_local_bond_contraction L E C) b c =
    sumn Dal (fun a => sumn Dw (fun w => get (esel L w) a b *
      sumn Dar (fun c' => get C a c' * get (esel E w) c' c))).
  Proof.
    intros Hw HL HE HrC HcC Hb Hc.
    destruct (env_ok_edl _ _ _ _ Hw HL) as (G1 & G2 & G3). destruct (env_ok_edl _ _ _ _ Hw HE) as (G4 & G5 & G6).
    unfold apply_local_bond_contraction. cbv zeta. rewrite G2, G5, G6, HrC.
    rewrite get_tab by assumption.
    apply sumn_ext; intros a Ha. apply sumn_ext; intros w Hw'. f_equal.
    unfold tabl. rewrite (nth_map_seq mx0) by exact Hw'.
    destruct HE as [_ HE]. destruct (HE w Hw') as [F3 F4].
    rewrite get_mulmx by lia. rewrite HcC. reflexivity.
  Qed.
End Entries.

Arguments site_ok {R} d Dl Dr A. Arguments osite_ok {R} d Dl Dr W. Arguments env_ok {R} Dw Da Db E.
