(* C08 — the zero-site (bond) effective operator for a RECTANGULAR bond matrix C (k x D: the R factor of a QR that
   lowers the bond dimension), generalising C04's local_bond_projection (square C). *)
From Coq Require Import Arith List Lia Ring Setoid Morphisms Bool.
From PT Require Import Base.Scalar Base.BigSum Base.Mx Model.Tensor Model.Operation
  Proofs.OperationSums Proofs.OperationEntries Proofs.OperationChains Proofs.OperationTransfer Proofs.OperationLocal.
Import ListNotations.

Section Bond.
  Variable R : cring.
  Add Ring Rring_sweeps_bond : (k_rt R).
  Notation "0" := (k0 R). Notation "1" := (k1 R).
  Infix "+" := (kadd R). Infix "*" := (kmul R).
  Notation site := (site R).
  Notation osite := (osite R).
  Notation env := (env R).
  Notation mx := (mx R).
  Notation cj := (kconj R).

  Lemma opstep_right_absorb_rect d Dka Da Dar Dkb Db Dbr Dwl Dwr (A B : site) (W : osite) (E : env) Cx Cy wl a b :
    0 < d -> 0 < Dwr -> site_ok d Da Dar A -> site_ok d Db Dbr B -> osite_ok d Dwl Dwr W -> env_ok Dwr Dar Dbr E ->
    nr Cx = Dka -> nc Cx = Da -> nr Cy = Dkb -> nc Cy = Db -> wl < Dwl -> a < Dka -> b < Dkb ->
    get (esel (contraction_operator_step_right (cmul_site Cx A) (cmul_site Cy B) W E) wl) a b =
    sumn Da (fun k => sumn Db (fun m =>
      get Cx a k * get (esel (contraction_operator_step_right A B W E) wl) k m * cj (get Cy b m))).
  Proof.
    intros Hd Hw HA HB HW HE c1 c2 c3 c4 Hwl Ha Hb.
    rewrite (get_opstep_right R d Dka Dar Dkb Dbr Dwl Dwr); try assumption.
    2: { apply (cmul_site_ok R d Dka Da); assumption. }
    2: { apply (cmul_site_ok R d Dkb Db); assumption. }
    transitivity (sumn d (fun s => sumn Dbr (fun c =>
      sumn d (fun t => sumn Dwr (fun wr => get (osel W s t) wl wr *
        sumn Dar (fun c' => sumn Da (fun k => get Cx a k * get (sel A t) k c') * get (esel E wr) c' c))) *
      cj (sumn Db (fun m => get Cy b m * get (sel B s) m c))))).
    { apply sumn_ext; intros s Hs. apply sumn_ext; intros c Hc. f_equal.
      - apply sumn_ext; intros t Ht. apply sumn_ext; intros wr Hwr. f_equal.
        apply sumn_ext; intros c' Hc'. f_equal. apply (get_cmul_site R d Dka Da Dar); assumption.
      - f_equal. apply (get_cmul_site R d Dkb Db Dbr); assumption. }
    transitivity (sumn Da (fun k => sumn Db (fun m => get Cx a k *
      sumn d (fun s => sumn Dbr (fun c =>
        sumn d (fun t => sumn Dwr (fun wr => get (osel W s t) wl wr *
          sumn Dar (fun c' => get (sel A t) k c' * get (esel E wr) c' c))) * cj (get (sel B s) m c))) *
      cj (get Cy b m)))).
    2: { apply sumn_ext; intros k Hk. apply sumn_ext; intros m Hm. f_equal. f_equal. symmetry.
         apply (get_opstep_right R d Da Dar Db Dbr Dwl Dwr); assumption. }
    to_suml. spush.
    sfront 6. senter. sfront 6. senter. senter. senter. senter. senter. senter. ring.
  Qed.

  Lemma bond_pairing_rect Dw Dka Da Dkb Db (L BRk : env) (Cx Cy : mx) :
    0 < Dw -> env_ok Dw Dka Dkb L -> env_ok Dw Da Db BRk ->
    nr Cx = Dka -> nc Cx = Da -> nr Cy = Dkb -> nc Cy = Db ->
    frob Cy (apply_local_bond_contraction L BRk Cx) =
    sumn Dw (fun w => sumn Dka (fun a => sumn Dkb (fun b => get (esel L w) a b *
      sumn Da (fun k => sumn Db (fun m => get Cx a k * get (esel BRk w) k m * cj (get Cy b m)))))).
  Proof.
    intros Hw HL HE c1 c2 c3 c4. unfold frob. rewrite c3, c4.
    transitivity (sumn Dkb (fun b => sumn Db (fun m => cj (get Cy b m) *
      sumn Dka (fun a => sumn Dw (fun w => get (esel L w) a b *
        sumn Da (fun k => get Cx a k * get (esel BRk w) k m)))))).
    { apply sumn_ext; intros b Hb. apply sumn_ext; intros m Hm. f_equal.
      apply (get_local_bond R Dka Da Dkb Db Dw); assumption. }
    to_suml. spush.
    sfront 4. senter. sfront 3. senter. senter. sfront 2. senter. senter. ring.
  Qed.

  Theorem local_bond_projection_rect
      (Al Ar Bl Br : list site) (Wl Wr : list osite) (A B : site) (W : osite) (Cx Cy : mx)
      dsl dsr d Dka Da Dar Dkb Db Dbr Dwl Dwr DsAl DsBl DsWl DsAr DsBr DsWr :
    chainx_ok dsl DsAl Al -> chainx_ok dsl DsBl Bl -> ochainx_ok dsl DsWl Wl ->
    hd 0%nat DsAl = 1%nat -> hd 0%nat DsBl = 1%nat -> hd 0%nat DsWl = 1%nat ->
    last DsAl 0%nat = Dka -> last DsBl 0%nat = Dkb -> last DsWl 0%nat = Dwl ->
    0 < d -> 0 < Dwr -> site_ok d Da Dar A -> site_ok d Db Dbr B -> osite_ok d Dwl Dwr W ->
    chain_ok dsr (Dar :: DsAr) Ar -> chain_ok dsr (Dbr :: DsBr) Br -> ochain_ok dsr (Dwr :: DsWr) Wr ->
    nr Cx = Dka -> nc Cx = Da -> nr Cy = Dkb -> nc Cy = Db ->
    frob Cy (apply_local_bond_contraction (lfold Al Bl Wl env_one) (rfold (A :: Ar) (B :: Br) (W :: Wr) env_one) Cx) =
    suml (gwords (dsl ++ d :: dsr)) (fun w => suml (gwords (dsl ++ d :: dsr)) (fun w' =>
      cj (amp (Bl ++ cmul_site Cy B :: Br) w) * opamp (Wl ++ W :: Wr) w w' * amp (Al ++ cmul_site Cx A :: Ar) w')).
  Proof.
    intros HAl HBl HWl h1 h2 h3 l1 l2 l3 Hd HDwr HA HB HW HAr HBr HWr c1 c2 c3 c4.
    assert (HXc : site_ok d Dka Dar (cmul_site Cx A)) by (apply (cmul_site_ok R d Dka Da); assumption).
    assert (HYc : site_ok d Dkb Dbr (cmul_site Cy B)) by (apply (cmul_site_ok R d Dkb Db); assumption).
    rewrite <- (local_hamiltonian_projection R Al Ar Bl Br Wl Wr (cmul_site Cx A) (cmul_site Cy B) W
                  dsl dsr d Dka Dar Dkb Dbr Dwl Dwr DsAl DsBl DsWl DsAr DsBr DsWr) by assumption.
    rewrite env_one_id.
    assert (HDwl : 0 < Dwl). { rewrite <- l3. apply (ochainx_last_pos R Wl dsl); [exact HWl|]. rewrite h3. lia. }
    assert (HBR : env_ok Dwr Dar Dbr (rfold Ar Br Wr (env_id 1))).
    { apply (rfold_shape R dsr (Dar :: DsAr) (Dbr :: DsBr) (Dwr :: DsWr)); assumption. }
    assert (HBL : env_ok Dwl Dka Dkb (lfold Al Bl Wl (env_id 1))).
    { rewrite <- l1, <- l2, <- l3. apply (lfoldx_shape R Al Bl Wl dsl); try assumption.
      rewrite h1, h2, h3. apply env_id_ok. }
    rewrite (heff_pairing R d Dka Dar Dkb Dbr Dwl Dwr) by assumption.
    cbn [rfold].
    rewrite (bond_pairing_rect Dwl Dka Da Dkb Db); try assumption.
    2: { apply (shape_opstep_right R d Da Dar Db Dbr Dwl Dwr); assumption. }
    unfold pair3. apply sumn_ext; intros w Hw. apply sumn_ext; intros a Ha. apply sumn_ext; intros b Hb. f_equal.
    symmetry. apply (opstep_right_absorb_rect d Dka Da Dar Dkb Db Dbr Dwl Dwr); assumption.
  Qed.
End Bond.
