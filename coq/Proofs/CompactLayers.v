(* C20: layer widths of a graph whose node ids are arranged in consecutive blocks and whose edges go from one block
   to the next are bounded by the block sizes (the layers found by MPO.from_opgraph are duplicate free subsets of the blocks). *)
From Coq Require Import ZArith List Lia Bool.
From PT Require Import Base.Scalar Base.BigSum Base.Mx Model.OpGraph Model.FromOpchains Model.GraphMPO Model.Hamiltonians
                       Proofs.FromOpchainsGraph Proofs.FromOpchainsPart Proofs.GraphMPOSem.
Import ListNotations.
Open Scope Z_scope.

Lemma NoDup_range_length (l : list Z) lo hi : NoDup l -> (forall x, In x l -> lo <= x < hi) -> Z.of_nat (length l) <= Z.max 0 (hi - lo).
Proof.
  intros Hn Hr.
  assert (Hi : incl l (map (fun k => lo + Z.of_nat k) (seq 0 (Z.to_nat (hi - lo))))).
  { intros x Hx. apply in_map_iff. exists (Z.to_nat (x - lo)). specialize (Hr x Hx). split; [lia|]. apply in_seq. lia. }
  apply NoDup_incl_length in Hi; [|exact Hn]. rewrite map_length, seq_length in Hi. lia.
Qed.

Lemma zinsert_length x l : length (zinsert x l) = S (length l).
Proof. induction l as [|y l IH]; simpl; [reflexivity|]. destruct (x <=? y); simpl; [reflexivity|]. rewrite IH. reflexivity. Qed.
Lemma zsort_length l : length (zsort l) = length l.
Proof. induction l as [|x l IH]; simpl; [reflexivity|]. rewrite zinsert_length, IH. reflexivity. Qed.

Section Layers.
  Variable R : cring.
  Notation graph := (graph R).

  Lemma tgt_fold_conv (g : graph) nid : forall eids l l',
    fold_left (tgt_fold R g nid) eids (Ok l) = Ok l' -> NoDup l ->
    NoDup l' /\ forall x, In x l' -> In x l \/ exists e, In e (g_edges g) /\ e_from e = nid /\ e_to e = x.
  Proof.
    induction eids as [|eid eids IH]; intros l l' H Hn; cbn [fold_left] in H.
    - inversion H; subst. split; [exact Hn|]. intros x Hx. left. exact Hx.
    - unfold tgt_fold at 2 in H. cbn [bind] in H.
      destruct (find_edge g eid) as [e0|] eqn:Ef; [|rewrite fold_err in H by reflexivity; discriminate].
      destruct (e_from e0 =? nid) eqn:Efr; cbn [negb] in H; [|rewrite fold_err in H by reflexivity; discriminate].
      apply Z.eqb_eq in Efr. apply find_edge_id in Ef. destruct Ef as [_ Hin].
      destruct (zmem (e_to e0) l) eqn:Em.
      + apply IH in H; [|exact Hn]. exact H.
      + apply IH in H.
        * destruct H as [A B]. split; [exact A|]. intros x Hx. destruct (B x Hx) as [Hl|He]; [|right; exact He].
          apply in_app_or in Hl. destruct Hl as [Hl|[<-|[]]]; [left; exact Hl|].
          right. exists e0. auto.
        * apply NoDup_app_end; [exact Hn|]. intros Hc. apply zmem_In in Hc. congruence.
  Qed.

  Lemma next_layer_conv (g : graph) : forall nids l l',
    fold_left (fun acc nid => node_targets g nid acc) nids (Ok l) = Ok l' -> NoDup l ->
    NoDup l' /\ forall x, In x l' -> In x l \/ exists nid e, In nid nids /\ In e (g_edges g) /\ e_from e = nid /\ e_to e = x.
  Proof.
    induction nids as [|nid nids IH]; intros l l' H Hn; cbn [fold_left] in H.
    - inversion H; subst. split; [exact Hn|]. intros x Hx. left. exact Hx.
    - destruct (node_targets g nid (Ok l)) as [l1|er] eqn:E; [|rewrite fold_err in H by reflexivity; discriminate].
      unfold node_targets in E. cbn [bind] in E. destruct (find_node g nid) as [n|]; [|discriminate].
      apply (tgt_fold_conv g nid) in E; [|exact Hn]. destruct E as [E1 E2].
      apply IH in H; [|exact E1]. destruct H as [H1 H2]. split; [exact H1|].
      intros x Hx. destruct (H2 x Hx) as [Hl|[m [e [Hm He]]]].
      + destruct (E2 x Hl) as [Hl0|[e [He1 [He2 He3]]]]; [left; exact Hl0|].
        right. exists nid, e. repeat split; auto. left. reflexivity.
      + right. exists m, e. split; [right; exact Hm|exact He].
  Qed.

  (* block structure: beta j is the first id of block j; block j = [beta j, beta (j+1)) *)
  Variable beta : nat -> Z.
  Variable K : nat.                              (* blocks 0 .. K *)
  Variable N : nat.
  Definition blk (j : nat) (x : Z) : Prop := beta j <= x < beta (S j).
  Hypothesis beta_mono : forall i j, (i <= j <= S K)%nat -> beta i <= beta j.
  Hypothesis beta_width : forall j, (1 <= j <= K)%nat -> beta (S j) - beta j <= Z.of_nat N.

  Lemma blk_unique j j' x : (j <= K)%nat -> (j' <= K)%nat -> blk j x -> blk j' x -> j = j'.
  Proof.
    unfold blk. intros Hj Hj' H H'.
    destruct (Nat.lt_trichotomy j j') as [Hlt|[Heq|Hgt]]; [|exact Heq|].
    - pose proof (beta_mono (S j) j' ltac:(lia)). lia.
    - pose proof (beta_mono (S j') j ltac:(lia)). lia.
  Qed.

  Variable g : graph.
  Hypothesis edges_blk : forall e, In e (g_edges g) -> exists j, (j < K)%nat /\ blk j (e_from e) /\ blk (S j) (e_to e).

  Lemma layers_blk : forall fuel nids0 ls j, (j <= K)%nat ->
    layers fuel g nids0 = Ok ls -> (forall x, In x nids0 -> blk j x) ->
    forall i l, nth_error ls i = Some l -> (1 <= j + 1 + i <= K)%nat /\ Z.of_nat (length l) <= Z.of_nat N.
  Proof.
    induction fuel as [|f IH]; intros nids0 ls j Hj H Hb i l Hi; simpl in H; [discriminate|].
    unfold next_layer in H.
    destruct (fold_left (fun acc nid => node_targets g nid acc) nids0 (Ok [])) as [n1|er] eqn:E; [|discriminate].
    cbn [bind] in H. apply next_layer_conv in E; [|constructor]. destruct E as [E1 E2].
    assert (Hn1 : forall x, In x n1 -> (S j <= K)%nat /\ blk (S j) x).
    { intros x Hx. destruct (E2 x Hx) as [[]|[nid [e [Hn [He [Hf Ht]]]]]].
      destruct (edges_blk e He) as [j' [Hj' [B1 B2]]]. rewrite Hf in B1. rewrite Ht in B2.
      assert (j' = j) by (apply (blk_unique j' j nid); auto; lia). subst j'. split; [lia|exact B2]. }
    destruct n1 as [|x n1].
    - inversion H; subst. destruct i; discriminate.
    - destruct (layers f g (zsort (x :: n1))) as [r|er] eqn:E2'; [|discriminate].
      cbn [bind] in H. inversion H; subst. destruct (Hn1 x ltac:(left; reflexivity)) as [HSj _].
      destruct i as [|i]; cbn [nth_error] in Hi.
      + inversion Hi; subst. split; [lia|]. change (zinsert x (zsort n1)) with (zsort (x :: n1)). rewrite zsort_length.
        pose proof (NoDup_range_length (x :: n1) (beta (S j)) (beta (S (S j))) E1 (fun y Hy => proj2 (Hn1 y Hy))) as Hl.
        pose proof (beta_width (S j) ltac:(lia)). lia.
      + destruct (IH (zsort (x :: n1)) r (S j) HSj E2' (fun y Hy => proj2 (Hn1 y (proj1 (zsort_In y _) Hy))) i l Hi) as [A B].
        split; [lia|exact B].
  Qed.

  (* every layer found by from_opgraph other than the start layer has at most N nodes *)
  Theorem bond_dims_le (ws : list nat) : (beta 0 <= g_t0 g < beta 1) ->
    bond_dims g = Some ws -> exists ws', ws = 1%nat :: ws' /\ Forall (fun w => (w <= N)%nat) ws' /\ (length ws' <= K)%nat.
  Proof.
    intros H0 H. unfold bond_dims, graph_layers in H.
    destruct (layers (S (length (g_nodes g))) g [g_t0 g]) as [ls|] eqn:E; cbn [bind] in H; [|discriminate].
    inversion H; subst. exists (map (@length Z) ls). split; [reflexivity|].
    assert (HL : forall i l, nth_error ls i = Some l -> (1 <= 0 + 1 + i <= K)%nat /\ Z.of_nat (length l) <= Z.of_nat N).
    { apply (layers_blk _ [g_t0 g] ls 0%nat ltac:(lia) E). intros x [<-|[]]. exact H0. }
    split.
    - apply Forall_forall. intros w Hw. apply in_map_iff in Hw. destruct Hw as [l [<- Hl]].
      apply In_nth_error in Hl. destruct Hl as [i Hi]. destruct (HL i l Hi) as [_ B]. lia.
    - rewrite map_length. destruct ls as [|l0 ls']; [simpl; lia|].
      assert (Hlast : nth_error (l0 :: ls') (length ls') <> None) by (apply nth_error_Some; simpl; lia).
      destruct (nth_error (l0 :: ls') (length ls')) as [l|] eqn:El; [|congruence].
      destruct (HL _ _ El) as [A _]. simpl. lia.
  Qed.
End Layers.
