(* C09 exactness — site-level consequences of the per-call QR contract [qr_full] (Proofs/ExactDefs.v): Leibniz
   factorisations X = Aq.C resp. X = C^T.Aq with unchanged shapes, isometry of Aq, and -- when the matricisation is
   square -- orthonormal rows of Q, i.e. the new tensor is left- resp. right-UNITARY (a complete frame stays complete). *)
From Coq Require Import ZArith Arith List Lia Ring Setoid Bool.
From PT Require Import Base.Scalar Base.BigSum Base.Mx Model.Tensor Model.Operation Model.Sweeps
  Proofs.OperationEntries Proofs.OperationLocal Proofs.SweepsCanon Proofs.SweepsGauge
  Proofs.ReverseDefs Proofs.ReverseMx Proofs.ReverseGauge Proofs.ReverseQR Proofs.ExactDefs.
Import ListNotations.

Section QRFull.
  Variable R : cring.
  Add Ring Rring_exact_qr : (k_rt R).
  Infix "*" := (kmul R).
  Notation site := (site R).
  Notation mx := (mx R).
  Notation cj := (kconj R).

  Lemma eqb_flat D s s' a a' : a < D -> a' < D -> Nat.eqb (s * D + a) (s' * D + a') = (Nat.eqb s s' && Nat.eqb a a')%bool.
  Proof.
    intros Ha Ha'. destruct (Nat.eqb_spec s s') as [->|N].
    - cbn [andb]. destruct (Nat.eqb_spec a a') as [->|N']; [apply Nat.eqb_refl|]. apply Nat.eqb_neq. lia.
    - cbn [andb]. apply Nat.eqb_neq. nia.
  Qed.

  Theorem qr_left_full d Dl Dr (X : site) (Q C : mx) qb : 0 < d -> wsite d Dl Dr X ->
    qr_full (site_flat X) (Q, C, qb) ->
    let Aq := site_unflat (length X) (sdl X) Q in
    wsite d Dl Dr Aq /\ left_iso Aq /\ wmx Dr Dr C /\ X = rmul_site Aq C /\ ((d * Dl)%nat = Dr -> lcoiso Aq).
  Proof.
    intros Hd HX (Hq & wC & HrC & Hrow) Aq. cbn [fst snd] in *.
    destruct (qr_left_site R d Dl Dr X Q C qb Hd (wsite_ok R _ _ _ _ HX) Hq) as (HAq & HcC & Hiso & Hent).
    destruct (site_flat_shape R d Dl Dr X Hd (wsite_ok R _ _ _ _ HX)) as [S1 S2]. rewrite S2 in HrC. rewrite S1, S2 in Hrow.
    fold Aq in HAq, Hiso, Hent. rewrite HrC in *.
    destruct (site_ok_sdl R _ _ _ _ Hd (wsite_ok R _ _ _ _ HX)) as (E1 & E2 & E3).
    assert (HncQ : nc Q = Dr) by (destruct Hq as (_ & q2 & _); congruence).
    assert (HnrQ : nr Q = (d * Dl)%nat) by (destruct Hq as (q1 & _); congruence).
    assert (HAqw : wsite d Dl Dr Aq).
    { unfold Aq. rewrite E1, E3. rewrite <- HncQ. apply wsite_unflat. }
    split; [exact HAqw|]. split; [exact Hiso|]. split; [repeat split; assumption|]. split.
    - apply (wsite_ext R d Dl Dr); [exact HX| |].
      + apply (wsite_map R d Dl Dr); [exact HAqw|]. intros M (m0 & m1 & m2). split; [apply wf_mulmx|split; shp].
      + intros s a c Hs Ha Hc. rewrite Hent by assumption. symmetry.
        apply (get_rmul_site R d Dl Dr Dr); try assumption; try (apply wsite_ok; exact HAqw).
    - intros Hsq. specialize (Hrow Hsq). intros s s' a a' Hs Hs' Ha Ha'.
      destruct (site_ok_sdl R _ _ _ _ Hd (wsite_ok R _ _ _ _ HAqw)) as (G1 & G2 & G3). rewrite G1, G2, G3 in *.
      unfold Aq. rewrite E1, E3.
      transitivity (sumn (nc Q) (fun c => get Q (s * Dl + a) c * cj (get Q (s' * Dl + a') c))).
      { rewrite HncQ. apply sumn_ext; intros c Hc. rewrite !get_site_unflat by (try assumption; rewrite HncQ; exact Hc). reflexivity. }
      rewrite Hrow by (rewrite HnrQ; nia). rewrite eqb_flat by assumption. reflexivity.
  Qed.

  Theorem qr_right_full d Dl Dr (X : site) (Q C : mx) qb : 0 < d -> wsite d Dl Dr X ->
    qr_full (site_flat (site_tr X)) (Q, C, qb) ->
    let Aq := site_tr (site_unflat (length (site_tr X)) (sdl (site_tr X)) Q) in
    wsite d Dl Dr Aq /\ right_iso Aq /\ wmx Dl Dl (trmx C) /\ X = lmul_site (trmx C) Aq /\ ((d * Dr)%nat = Dl -> rcoiso Aq).
  Proof.
    intros Hd HX (Hq & wC & HrC & Hrow) Aq. cbn [fst snd] in *.
    destruct (qr_right_site R d Dl Dr X Q C qb Hd (wsite_ok R _ _ _ _ HX) Hq) as (HAq & HcC & Hiso & Hent).
    pose proof (wsite_tr R d Dl Dr X HX) as HXt.
    destruct (site_flat_shape R d Dr Dl (site_tr X) Hd (wsite_ok R _ _ _ _ HXt)) as [S1 S2]. rewrite S2 in HrC. rewrite S1, S2 in Hrow.
    fold Aq in HAq, Hiso, Hent. rewrite HrC in *.
    destruct (site_ok_sdl R _ _ _ _ Hd (wsite_ok R _ _ _ _ HXt)) as (E1 & E2 & E3).
    assert (HncQ : nc Q = Dl) by (destruct Hq as (_ & q2 & _); congruence).
    assert (HnrQ : nr Q = (d * Dr)%nat) by (destruct Hq as (q1 & _); congruence).
    assert (HU : wsite d Dr Dl (site_unflat d Dr Q)) by (rewrite <- HncQ; apply wsite_unflat).
    assert (HAqw : wsite d Dl Dr Aq).
    { unfold Aq. rewrite E1, E3. apply wsite_tr. exact HU. }
    split; [exact HAqw|]. split; [exact Hiso|]. split; [split; [apply wf_trmx|split; shp]|]. split.
    - apply (wsite_ext R d Dl Dr); [exact HX| |].
      + apply (wsite_map R d Dl Dr); [exact HAqw|]. intros M (m0 & m1 & m2). split; [apply wf_mulmx|split; shp].
      + intros s a c Hs Ha Hc. rewrite Hent by assumption. symmetry.
        change (lmul_site (trmx C) Aq) with (cmul_site (trmx C) Aq).
        apply (get_cmul_site R d Dl Dl Dr); try assumption; try (apply wsite_ok; exact HAqw); shp.
    - intros Hsq. specialize (Hrow Hsq). intros s s' c c' Hs Hs' Hc Hc'.
      destruct (site_ok_sdl R _ _ _ _ Hd (wsite_ok R _ _ _ _ HAqw)) as (G1 & G2 & G3). rewrite G1, G2, G3 in *.
      unfold Aq. rewrite E1, E3.
      transitivity (sumn (nc Q) (fun j => get Q (s * Dr + c) j * cj (get Q (s' * Dr + c') j))).
      { rewrite HncQ. apply sumn_ext; intros j Hj.
        rewrite !(get_site_tr R d Dr Dl) by (try assumption; apply wsite_ok; exact HU).
        rewrite !get_site_unflat by (try assumption; rewrite HncQ; exact Hj). reflexivity. }
      rewrite Hrow by (rewrite HnrQ; nia). rewrite eqb_flat by assumption. reflexivity.
  Qed.
End QRFull.
