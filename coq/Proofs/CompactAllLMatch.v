(* C20, all lattice sizes, part 4 (generic): matchings and covers of a site graph in terms of VALUES (U halves, V halves of the
   half-chains in flight) instead of list positions:
   - an upper bound on every matching from a classification of the edges (edges of one class share an end point);
   - a matching from a list of vertex-disjoint value pairs; weak duality;
   - what a certified cover (valid + matching of equal size) must contain, relative to ANY matching of that size;
   - the half-chains after the pass, by value. *)
From Coq Require Import ZArith List Lia Bool.
From PT Require Import Base.Scalar Base.BigSum Model.OpGraph Model.Bipartite Model.FromOpchains Model.Compact
                       Proofs.FromOpchainsGraph Proofs.FromOpchainsPart Proofs.CompactCount Proofs.CompactAllLPart.
Import ListNotations.
Open Scope Z_scope.

Section Match.
  Variable R : cring.
  Notation part := (part R).
  Variable p : part.
  Variable sk : list hchain.
  Hypothesis PS : PSpec R p sk.
  Let es := p_edges p.

  Definition E (u : unode) (v : hchain) : Prop := exists h, In h sk /\ split_u h = u /\ split_v h = v.
  Definition atU (i : nat) (u : unode) : Prop := nth_error (p_u p) i = Some u.
  Definition atV (j : nat) (v : hchain) : Prop := nth_error (p_v p) j = Some v.

  Lemma atU_inj i i' u : atU i u -> atU i' u -> i = i'.
  Proof.
    unfold atU. intros A B. apply (proj1 (NoDup_nth_error (p_u p)) (ps_nu R p sk PS)); [apply nth_error_Some; congruence|congruence].
  Qed.
  Lemma atV_inj j j' v : atV j v -> atV j' v -> j = j'.
  Proof.
    unfold atV. intros A B. apply (proj1 (NoDup_nth_error (p_v p)) (ps_nv R p sk PS)); [apply nth_error_Some; congruence|congruence].
  Qed.
  Lemma atU_fun i u u' : atU i u -> atU i u' -> u = u'. Proof. unfold atU. congruence. Qed.
  Lemma atV_fun j v v' : atV j v -> atV j v' -> v = v'. Proof. unfold atV. congruence. Qed.

  Lemma edge_E i j : In (i, j) es <-> exists u v, atU i u /\ atV j v /\ E u v.
  Proof.
    unfold es. rewrite (ps_e R p sk PS). split.
    - intros [h [Hh [A B]]]. exists (split_u h), (split_v h). split; [exact A|]. split; [exact B|]. exists h. auto.
    - intros [u [v [A [B [h [Hh [Eu Ev]]]]]]]. exists h. subst. auto.
  Qed.
  Lemma E_edge u v : E u v -> exists i j, In (i, j) es /\ atU i u /\ atV j v.
  Proof.
    intros HE. assert (Hu : In u (p_u p)) by (apply (ps_u R p sk PS); destruct HE as [h [A [B _]]]; exists h; auto).
    assert (Hv : In v (p_v p)) by (apply (ps_v R p sk PS); destruct HE as [h [A [_ B]]]; exists h; auto).
    destruct (In_nth_error _ _ Hu) as [i Hi]. destruct (In_nth_error _ _ Hv) as [j Hj].
    exists i, j. split; [apply edge_E; exists u, v; auto|auto].
  Qed.

  (* ---- upper bound from a classification of the edges ---- *)
  Lemma matching_le_classes (cls : unode -> hchain -> nat) (d : nat) :
    (forall u v, E u v -> (cls u v < d)%nat) ->
    (forall u v u' v', E u v -> E u' v' -> cls u v = cls u' v' -> u = u' \/ v = v') ->
    forall m, incl m es -> NoDup (map fst m) -> NoDup (map snd m) -> (length m <= d)%nat.
  Proof.
    intros Hd Hc m Hm Hu Hv.
    set (f := fun e : nat * nat => cls (nthu R p (fst e)) (nthv R p (snd e))).
    assert (Hval : forall e, In e m -> atU (fst e) (nthu R p (fst e)) /\ atV (snd e) (nthv R p (snd e)) /\ E (nthu R p (fst e)) (nthv R p (snd e))).
    { intros [i j] He. apply Hm in He. apply edge_E in He. destruct He as [u [v [A [B C]]]]. cbn [fst snd].
      unfold nthu, nthv. unfold atU in A. unfold atV in B. rewrite (nth_error_nth _ _ _ A), (nth_error_nth _ _ _ B). auto. }
    assert (Hnd : NoDup (map f m)).
    { apply NoDup_map_inj; [exact (NoDup_of_map fst m Hu)|]. intros x y Hx Hy Exy. unfold f in Exy.
      destruct (Hval x Hx) as [A1 [B1 C1]]. destruct (Hval y Hy) as [A2 [B2 C2]].
      destruct (Hc _ _ _ _ C1 C2 Exy) as [Eu|Ev].
      - apply (NoDup_map_fst_inj m); try assumption. rewrite Eu in A1. exact (atU_inj _ _ _ A1 A2).
      - apply (NoDup_map_snd_inj m); try assumption. rewrite Ev in B1. exact (atV_inj _ _ _ B1 B2). }
    assert (Hin : incl (map f m) (seq 0 d)).
    { intros c Hcx. apply in_map_iff in Hcx. destruct Hcx as [e [<- He]]. apply in_seq. destruct (Hval e He) as [_ [_ C]].
      specialize (Hd _ _ C). unfold f. lia. }
    apply NoDup_incl_length in Hin; [|exact Hnd]. rewrite map_length, seq_length in Hin. exact Hin.
  Qed.

  (* ---- a matching from vertex-disjoint value pairs ---- *)
  Lemma matching_of_pairs : forall M : list (unode * hchain),
    (forall uv, In uv M -> E (fst uv) (snd uv)) -> NoDup (map fst M) -> NoDup (map snd M) ->
    exists m, incl m es /\ NoDup (map fst m) /\ NoDup (map snd m) /\ length m = length M /\
      (forall i j, In (i, j) m <-> exists u v, In (u, v) M /\ atU i u /\ atV j v).
  Proof.
    induction M as [|[u v] M IH]; intros HE Hu Hv.
    - exists []. split; [intros e []|]. split; [constructor|]. split; [constructor|]. split; [reflexivity|].
      intros i j. split; [intros []|intros [u [v [[] _]]]].
    - inversion Hu as [|? ? Hu1 Hu2]; subst. inversion Hv as [|? ? Hv1 Hv2]; subst. cbn [fst snd] in *.
      destruct (IH (fun uv H => HE uv (or_intror H)) Hu2 Hv2) as [m [A [B [C [D F]]]]].
      destruct (E_edge u v (HE (u, v) (or_introl eq_refl))) as [i [j [He [Ai Aj]]]].
      exists ((i, j) :: m). split; [intros e [<-|H]; [exact He|apply A; exact H]|].
      split; [|split; [|split; [simpl; lia|]]].
      + cbn [map fst]. constructor; [|exact B]. intros Hin. apply in_map_iff in Hin. destruct Hin as [[i' j'] [Ei H]]. cbn [fst] in Ei. subst i'.
        apply F in H. destruct H as [u' [v' [HM [A1 _]]]]. rewrite (atU_fun _ _ _ A1 Ai) in HM. apply Hu1. apply in_map_iff. exists (u, v'). auto.
      + cbn [map snd]. constructor; [|exact C]. intros Hin. apply in_map_iff in Hin. destruct Hin as [[i' j'] [Ej H]]. cbn [snd] in Ej. subst j'.
        apply F in H. destruct H as [u' [v' [HM [_ A2]]]]. rewrite (atV_fun _ _ _ A2 Aj) in HM. apply Hv1. apply in_map_iff. exists (u', v). auto.
      + intros i' j'. cbn [In]. rewrite F. split.
        * intros [Eij|[u' [v' [HM HA]]]]; [inversion Eij; subst; exists u, v; auto|exists u', v'; auto].
        * intros [u' [v' [[Euv|HM] [A1 A2]]]].
          -- inversion Euv; subst. left. f_equal; [exact (atU_inj _ _ _ Ai A1)|exact (atV_inj _ _ _ Aj A2)].
          -- right. exists u', v'. auto.
  Qed.

  (* ---- certified covers ---- *)
  Variables (uc vc : list nat) (mc : list (nat * nat)).
  Hypothesis cov : forall e, In e es -> In (fst e) uc \/ In (snd e) vc.
  Hypothesis mc_es : incl mc es.
  Hypothesis mc_u : NoDup (map fst mc).
  Hypothesis mc_v : NoDup (map snd mc).
  Hypothesis mc_len : length mc = (length uc + length vc)%nat.

  Definition UCu (u : unode) : Prop := exists i, In i uc /\ atU i u.
  Definition VCv (v : hchain) : Prop := exists j, In j vc /\ atV j v.

  Lemma cover_E u v : E u v -> UCu u \/ VCv v.
  Proof.
    intros HE. destruct (E_edge u v HE) as [i [j [He [A B]]]]. destruct (cov _ He) as [H|H]; [left; exists i|right; exists j]; auto.
  Qed.

  Lemma weak_duality_idx m : incl m es -> NoDup (map fst m) -> NoDup (map snd m) -> (length m <= length uc + length vc)%nat.
  Proof.
    intros Hm Hu Hv. pose proof (phi_nd uc m Hu Hv) as N. pose proof (phi_incl es uc vc m cov Hm) as I.
    apply NoDup_incl_length in I; [|exact N]. unfold cvs in I. rewrite map_length, app_length, !map_length in I. exact I.
  Qed.

  (* the size of the cover from both bounds *)
  Lemma cover_size (cls : unode -> hchain -> nat) (d : nat) (M : list (unode * hchain)) :
    (forall u v, E u v -> (cls u v < d)%nat) ->
    (forall u v u' v', E u v -> E u' v' -> cls u v = cls u' v' -> u = u' \/ v = v') ->
    (forall uv, In uv M -> E (fst uv) (snd uv)) -> NoDup (map fst M) -> NoDup (map snd M) -> length M = d ->
    (length uc + length vc)%nat = d.
  Proof.
    intros H1 H2 H3 H4 H5 H6. pose proof (matching_le_classes cls d H1 H2 mc mc_es mc_u mc_v) as UB.
    destruct (matching_of_pairs M H3 H4 H5) as [m [A [B [C [D _]]]]].
    pose proof (weak_duality_idx m A B C) as LB. lia.
  Qed.

  (* relative to any value matching of the size of the cover: a V-cover vertex is matched to a vertex outside the U-cover *)
  Lemma vcover_partner (M : list (unode * hchain)) :
    (forall uv, In uv M -> E (fst uv) (snd uv)) -> NoDup (map fst M) -> NoDup (map snd M) ->
    length M = (length uc + length vc)%nat ->
    forall v, VCv v -> exists u, In (u, v) M /\ ~ UCu u.
  Proof.
    intros H3 H4 H5 H6 v [j [Hj Aj]].
    destruct (matching_of_pairs M H3 H4 H5) as [m [A [B [C [D F]]]]].
    destruct (v_partner es uc vc m cov A B C ltac:(lia) j Hj) as [i [Him Hi]].
    apply F in Him. destruct Him as [u [v' [HM [Ai Aj']]]]. rewrite (atV_fun _ _ _ Aj' Aj) in HM.
    exists u. split; [exact HM|]. intros [i' [Hi' Ai']]. rewrite (atU_inj _ _ _ Ai' Ai) in Hi'. contradiction.
  Qed.

  (* every V-cover index is a valid position *)
  Lemma vc_valid j : In j vc -> exists v, atV j v.
  Proof.
    intros Hj. destruct (v_partner es uc vc mc cov mc_es mc_u mc_v mc_len j Hj) as [i [Him _]].
    apply mc_es, edge_E in Him. destruct Him as [u [v [_ [B _]]]]. exists v. exact B.
  Qed.

  (* ---- the half-chains after the pass, by value ---- *)
  Lemma nextU_val nid h' : In h' (nextU R p nid uc) <->
    exists a i u v, nth_error uc a = Some i /\ atU i u /\ E u v /\ h' = reh v (nid + Z.of_nat a).
  Proof.
    rewrite nextU_In. split.
    - intros [a [i [j [Ha [He Eh]]]]]. apply edge_E in He. destruct He as [u [v [A [B C]]]].
      exists a, i, u, v. split; [exact Ha|]. split; [exact A|]. split; [exact C|]. rewrite Eh. f_equal.
      unfold nthv. unfold atV in B. rewrite (nth_error_nth _ _ _ B). reflexivity.
    - intros [a [i [u [v [Ha [A [C Eh]]]]]]]. destruct (E_edge u v C) as [i' [j [He [A' B]]]].
      rewrite (atU_inj _ _ _ A' A) in He. exists a, i, j. split; [exact Ha|]. split; [exact He|]. rewrite Eh. f_equal.
      unfold nthv. unfold atV in B. rewrite (nth_error_nth _ _ _ B). reflexivity.
  Qed.
  Lemma nextV_val nid h' : In h' (nextV R p nid vc) <->
    exists b j v, nth_error vc b = Some j /\ atV j v /\ h' = reh v (nid + Z.of_nat b).
  Proof.
    rewrite nextV_In. split.
    - intros [b [j [Hb Eh]]]. destruct (vc_valid j (nth_error_In _ _ Hb)) as [v B]. exists b, j, v. split; [exact Hb|]. split; [exact B|].
      rewrite Eh. f_equal. unfold nthv. unfold atV in B. rewrite (nth_error_nth _ _ _ B). reflexivity.
    - intros [b [j [v [Hb [B Eh]]]]]. exists b, j. split; [exact Hb|]. rewrite Eh. f_equal.
      unfold nthv. unfold atV in B. rewrite (nth_error_nth _ _ _ B). reflexivity.
  Qed.
End Match.
