(* Concrete data for the round-4 non-vacuity example of the DMRG total-charge theorem with a TRUNCATING split, over Q[i]:
     L = 2, qd = [0; 1], bond charges [0] [0; 1] [1] (total charge 1),  psi = 4/5 |01> + 3/5 |10>  (right-canonical, norm one),
     H = identity (bond charges [0] [0] [0]), eigensolver = keig_id (returns its start tensor), one sweep, tol_split = 1/2:
   split_matrix_svd (the mirror of Model/BondOpsF5.v / BondOps.v with LAPACK's answers on the two 1 x 1 blocks and argsort = [1; 0])
   sees the singular values 4/5 (charge 0) and 3/5 (charge 1) with normalised squares 16/25, 9/25; the cumulative weight of the
   smaller one, 9/25, is below tol: it is DISCARDED, the bond dimension drops from 2 to 1, the state becomes 4/5 |01> (norm
   4/5, not zero), and the closing QR renormalises it; qD[0] = [0] and qD[2] = [1] are kept. *)
From Coq Require Import ZArith QArith Qcanon List Bool.
From PT Require Import Base.Scalar Base.Field Base.BigSum Base.Mx Model.Tensor Model.MPSOps Model.BondOps Model.BondOpsF5 Model.Operation Model.Sweeps.
From PT Require Import Proofs.SweepsCheck Proofs.SweepsExample Proofs.Hist4Top.
Import ListNotations.

Open Scope Z_scope.
Definition ex5_psi : mps CQ :=
  mkmps [0; 1] [[0]; [0; 1]; [1]]
    [ [exm 1 2 [[exq 4 5; exq 0 1]]; exm 1 2 [[exq 0 1; exq 3 5]]];
      [exm 2 1 [[exq 0 1]; [exq 1 1]]; exm 2 1 [[exq 1 1]; [exq 0 1]]] ].
Definition ex5_H : mpo CQ := mpo_identity [0; 1] 2 (k1 CQ).
Definition ex5_stbl : list (mx CQ * (mx CQ * list QcF * mx CQ)) :=
  [ (exm 1 1 [[exq 4 5]], (exm 1 1 [[exq 1 1]], [Q2Qc (4 # 5)], exm 1 1 [[exq 1 1]]));
    (exm 1 1 [[exq 3 5]], (exm 1 1 [[exq 1 1]], [Q2Qc (3 # 5)], exm 1 1 [[exq 1 1]])) ].
Close Scope Z_scope.
Definition ex5_orth : mps CQ -> mps CQ * CQ := fun p => (p, k1 CQ).
Definition ex5_dsvd := svd_oracle ex5_stbl.
Definition ex5_pick : list QcF -> list nat := fun _ => [1; 0]%nat.
Definition ex5_tol : QcF := Q2Qc (1 # 2).
Definition ex5_split := split5 QcF ex5_dsvd ex5_pick (fun z : CQ => z) ex5_tol.
(* block QR of a column whose only non-zero entry is the first: Q = e_0, R = [[M[0,0]]], label = charge of row 0 *)
Definition ex5_qr (_ : nat) (M : mx CQ) (q0 _ : list Z) : mx CQ * mx CQ * list Z :=
  (tab (nr M) 1 (fun i _ => if Nat.eqb i 0 then k1 CQ else k0 CQ), tab 1 1 (fun _ _ => get M 0 0), firstn 1 q0).
Definition ex5_run := dmrg_twosite ex5_orth ex5_qr ex5_split keig_id ex5_H ex5_psi 1.
