(* C06 (b): kernel-checked finite facts about the operator maps (vm_compute over the Gaussian rationals QIring;
   spin-1 and bosons, whose maps contain square roots, only at the level of entry POSITIONS with the roots replaced by 1),
   and the general facts about the word adjoint of the chain tables. *)
From Coq Require Import ZArith QArith Qcanon List Lia Bool Permutation.
From PT Require Import Base.Scalar Base.BigSum Base.Mx Model.OpGraph Model.FromOpchains Model.GraphMPO Model.Hamiltonians Model.HamFormulas.
Import ListNotations.
Open Scope Z_scope.

Definition qh : QI := (Q2Qc (1 # 2), Q2Qc 0).
Definition qmi2 : QI := (Q2Qc 0, Q2Qc (-1 # 2)).          (* 1/(2i) = -i/2 *)
Definition qi_ : QI := (Q2Qc 0, Q2Qc 1).
Definition q1_ : QI := k1 QIring.
Definition q0_ : QI := k0 QIring.
Definition qm1 : QI := kopp QIring q1_.

(* ---------------- spin 1/2 ---------------- *)
Definition s_om : Z -> mx QIring := opmap_of (xxz_opmap (R := QIring) qh).
Definition Sx : mx QIring := scalemx (R := QIring) qh (addmx (s_om 1) (s_om (-1))).       (* (S+ + S-)/2 *)
Definition Sy : mx QIring := scalemx (R := QIring) qmi2 (submx (s_om 1) (s_om (-1))).      (* (S+ - S-)/(2i) *)
Definition Sz : mx QIring := s_om 2.
Definition m22q (a b c d : QI) : mx QIring := @mkmx QIring 2 2 [[a; b]; [c; d]].

(* S+, S-, Sz are the stated matrices; Sx, Sy, Sz are half the Pauli matrices *)
Lemma spin_half_matrices :
  mxeqb (s_om 1) (m22q q0_ q1_ q0_ q0_) && mxeqb (s_om (-1)) (m22q q0_ q0_ q1_ q0_) &&
  mxeqb Sz (m22q qh q0_ q0_ (kopp QIring qh)) && mxeqb (s_om 0) (idmx 2) &&
  mxeqb Sx (m22q q0_ qh qh q0_) && mxeqb Sy (m22q q0_ qmi2 (kopp QIring qmi2) q0_) = true.
Proof. vm_compute. reflexivity. Qed.
(* su(2):  [Sx,Sy] = i Sz,  [Sz,S+] = S+,  [S+,S-] = 2 Sz *)
Lemma spin_half_su2 :
  mxeqb (submx (mulmx Sx Sy) (mulmx Sy Sx)) (scalemx (R := QIring) qi_ Sz) &&
  mxeqb (submx (mulmx Sz (s_om 1)) (mulmx (s_om 1) Sz)) (s_om 1) &&
  mxeqb (submx (mulmx (s_om 1) (s_om (-1))) (mulmx (s_om (-1)) (s_om 1))) (addmx Sz Sz) = true.
Proof. vm_compute. reflexivity. Qed.
(* the 4x4 identity  Sx (x) Sx + Sy (x) Sy = (1/2) (S+ (x) S- + S- (x) S+) *)
Lemma xx_plus_yy :
  mxeqb (addmx (kronmx Sx Sx) (kronmx Sy Sy))
        (scalemx (R := QIring) qh (addmx (kronmx (s_om 1) (s_om (-1))) (kronmx (s_om (-1)) (s_om 1)))) = true.
Proof. vm_compute. reflexivity. Qed.
Lemma xxz_opmap_adjoint : opmap_adj_okb (xxz_opmap (R := QIring) qh) adjo_pm = true.
Proof. vm_compute. reflexivity. Qed.
Lemma xxz_charges : spec_charges_okb (xxz_spec (R := QIring) qh q1_ q1_ q1_) = true.
Proof. vm_compute. reflexivity. Qed.

(* ---------------- Fermi-Hubbard ---------------- *)
Definition f_om : Z -> mx QIring := opmap_of (fermi_opmap (R := QIring) qh).
Definition fa : mx QIring := m22q q0_ q1_ q0_ q0_.          (* a *)
Definition fZ : mx QIring := m22q q1_ q0_ q0_ qm1.
Definition fI : mx QIring := idmx 2.
Definition k4 (a b c d : mx QIring) : mx QIring := kronmx (kronmx a b) (kronmx c d).
(* Jordan-Wigner modes (up0, dn0, up1, dn1) on two sites: I..I a Z..Z *)
Definition a_up0 := k4 fa fZ fZ fZ.
Definition a_dn0 := k4 fI fa fZ fZ.
Definition a_up1 := k4 fI fI fa fZ.
Definition a_dn1 := k4 fI fI fI fa.
(* single-site modes *)
Definition s_up := kronmx fa fZ.
Definition s_dn := kronmx fI fa.

(* site operators are the Kronecker products of mode operators: CI = a^dag (x) I, ..., ZA = Z (x) a *)
Lemma fermi_site_ops :
  let ad := adjmx fa in
  mxeqb (f_om 0) (idmx 4) &&
  mxeqb (f_om 1) (kronmx ad fI) && mxeqb (f_om 2) (kronmx fa fI) && mxeqb (f_om 3) (kronmx ad fZ) && mxeqb (f_om 4) (kronmx fa fZ) &&
  mxeqb (f_om 5) (kronmx fI ad) && mxeqb (f_om 6) (kronmx fI fa) && mxeqb (f_om 7) (kronmx fZ ad) && mxeqb (f_om 8) (kronmx fZ fa) = true.
Proof. vm_compute. reflexivity. Qed.
(* n_up + n_dn and (n_up - 1/2)(n_dn - 1/2) from the site modes a_up = a (x) Z, a_dn = I (x) a *)
Lemma fermi_number_ops :
  let nup := mulmx (adjmx s_up) s_up in let ndn := mulmx (adjmx s_dn) s_dn in
  mxeqb (f_om 9) (addmx nup ndn) &&
  mxeqb (f_om 10) (mulmx (submx nup (scalemx (R := QIring) qh (idmx 4))) (submx ndn (scalemx (R := QIring) qh (idmx 4)))) = true.
Proof. vm_compute. reflexivity. Qed.
(* the two-site words of the table are the products of Jordan-Wigner strings:
   a^dag_{up,0} a_{up,1} = CZ (x) AI,  a^dag_{up,1} a_{up,0} = AZ (x) CI,  a^dag_{dn,0} a_{dn,1} = IC (x) ZA,  a^dag_{dn,1} a_{dn,0} = IA (x) ZC *)
Lemma fermi_hopping_jw :
  mxeqb (mulmx (adjmx a_up0) a_up1) (kronmx (f_om 3) (f_om 2)) &&
  mxeqb (mulmx (adjmx a_up1) a_up0) (kronmx (f_om 4) (f_om 1)) &&
  mxeqb (mulmx (adjmx a_dn0) a_dn1) (kronmx (f_om 5) (f_om 8)) &&
  mxeqb (mulmx (adjmx a_dn1) a_dn0) (kronmx (f_om 6) (f_om 7)) = true.
Proof. vm_compute. reflexivity. Qed.
(* canonical anticommutation of the two site modes (sanity of the convention) *)
Lemma fermi_site_car :
  mxeqb (addmx (mulmx s_up (adjmx s_up)) (mulmx (adjmx s_up) s_up)) (idmx 4) &&
  mxeqb (addmx (mulmx s_dn (adjmx s_dn)) (mulmx (adjmx s_dn) s_dn)) (idmx 4) &&
  mxeqb (addmx (mulmx s_up s_dn) (mulmx s_dn s_up)) (zeromx 4 4) &&
  mxeqb (addmx (mulmx s_up (adjmx s_dn)) (mulmx (adjmx s_dn) s_up)) (zeromx 4 4) = true.
Proof. vm_compute. reflexivity. Qed.
Lemma fermi_opmap_adjoint : opmap_adj_okb (fermi_opmap (R := QIring) qh) adjo_fermi = true.
Proof. vm_compute. reflexivity. Qed.
Lemma fermi_charges : spec_charges_okb (fermi_spec (R := QIring) qh q1_ q1_ q1_) = true.
Proof. vm_compute. reflexivity. Qed.

(* ---------------- linear fermionic, Ising-type Pauli maps ---------------- *)
Lemma linferm_opmap_adjoint : opmap_adj_okb (linferm_opmap (R := QIring)) adjo_pm = true.
Proof. vm_compute. reflexivity. Qed.
(* the operators of the hand-wired graph shift the particle number by -1 (A), 0 (I, Z), +1 (C) under qd = [0, 1] *)
Lemma linferm_charges :
  let om := opmap_of (linferm_opmap (R := QIring)) in
  op_charge_okb [0; 1] (om (-1)) (-1) && op_charge_okb [0; 1] (om 0) 0 && op_charge_okb [0; 1] (om 1) 1 && op_charge_okb [0; 1] (om 2) 0 = true.
Proof. vm_compute. reflexivity. Qed.

(* ---------------- spin 1 and bosons: POSITIONS of the entries only (every square root replaced by 1) ---------------- *)
Lemma xxz1_charges_positions : spec_charges_okb (xxz1_spec (R := QIring) qh q1_ q1_ q1_ q1_) = true.
Proof. vm_compute. reflexivity. Qed.
Lemma xxz1_adjoint_positions : opmap_adj_okb (xxz1_opmap (R := QIring) q1_) adjo_pm = true.
Proof. vm_compute. reflexivity. Qed.
Lemma bose_charges_positions :
  forallb (fun d => spec_charges_okb (bose_spec (R := QIring) d (fun _ => q1_) q1_ q1_ q1_)) [1; 2; 3; 4; 5; 6]%nat = true.
Proof. vm_compute. reflexivity. Qed.
Lemma bose_adjoint_positions :
  forallb (fun d => opmap_adj_okb (bose_opmap (R := QIring) d (fun _ => q1_)) adjo_pm) [1; 2; 3; 4; 5; 6]%nat = true.
Proof. vm_compute. reflexivity. Qed.
(* spin 1 over any ring: for a self-conjugate sq2 the operator map satisfies opmap(adj o) = opmap(o)^H entry by entry *)
Lemma xxz1_opmap_adjoint_gen (R : cring) (sq2 : R) : kconj R sq2 = sq2 ->
  forall o, In o [-1; 0; 1; 2] -> adjmx (opmap_of (xxz1_opmap sq2) o) = opmap_of (xxz1_opmap sq2) (adjo_pm o).
Proof.
  intros Hs o Ho. simpl in Ho.
  repeat (destruct Ho as [<-|Ho]; [cbv -[kconj k0 k1 kopp]; rewrite ?kconj_opp, ?kconj_0, ?kconj_1, ?Hs; reflexivity|]).
  contradiction.
Qed.

(* ---------------- the word adjoint leaves each chain table invariant for real parameters ---------------- *)
Section TableAdj.
  Variable R : cring.
  Lemma xxz_table_adj (half J D h : R) : kconj R half = half -> kconj R J = J -> kconj R D = D -> kconj R h = h ->
    Permutation (map (chain_adj adjo_pm) (xxz_lop half J D h)) (xxz_lop half J D h).
  Proof.
    intros H1 H2 H3 H4. unfold xxz_lop, chain_adj, lc. cbn [map c_oids c_qnums c_coeff c_istart adjo_pm Z.eqb Z.opp].
    rewrite !kconj_mul, ?kconj_opp, H1, H2, H3, H4. cbn. apply perm_swap.
  Qed.
  Lemma xxz1_table_adj (half J D h : R) : kconj R half = half -> kconj R J = J -> kconj R D = D -> kconj R h = h ->
    Permutation (map (chain_adj adjo_pm) (xxz1_lop half J D h)) (xxz1_lop half J D h).
  Proof.
    intros H1 H2 H3 H4. unfold xxz1_lop, chain_adj, lc. cbn [map c_oids c_qnums c_coeff c_istart adjo_pm Z.eqb Z.opp].
    rewrite !kconj_mul, ?kconj_opp, H1, H2, H3, H4. cbn. apply perm_swap.
  Qed.
  Lemma bose_table_adj (t U mu : R) : kconj R t = t -> kconj R U = U -> kconj R mu = mu ->
    Permutation (map (chain_adj adjo_pm) (bose_lop t U mu)) (bose_lop t U mu).
  Proof.
    intros H1 H2 H3. unfold bose_lop, chain_adj, lc. cbn [map c_oids c_qnums c_coeff c_istart adjo_pm Z.eqb Z.opp].
    rewrite ?kconj_opp, H1, H2, H3. cbn. apply perm_swap.
  Qed.
  Lemma fermi_table_adj (t U mu : R) : kconj R t = t -> kconj R U = U -> kconj R mu = mu ->
    Permutation (map (chain_adj adjo_fermi) (fermi_lop t U mu)) (fermi_lop t U mu).
  Proof.
    intros H1 H2 H3. unfold fermi_lop, chain_adj, lc. cbn [map c_oids c_qnums c_coeff c_istart].
    rewrite ?kconj_opp, H1, H2, H3. cbn.
    eapply perm_trans; [apply perm_swap|]. apply perm_skip. apply perm_skip. apply perm_swap.
  Qed.
End TableAdj.
