(* C09 exactness — amplitudes of chains that differ on two neighbouring sites only: if the two-site products agree, all
   amplitudes agree (moving a bond matrix from one tensor into its neighbour does not change the dense state). *)
From Coq Require Import ZArith Arith List Lia Ring Setoid Bool.
From PT Require Import Base.Scalar Base.BigSum Base.Mx Model.Tensor Model.Operation Model.Sweeps
  Proofs.OperationEntries Proofs.SweepsCanon Proofs.SweepsFlow Proofs.SweepsGauge
  Proofs.ReverseDefs Proofs.ReverseMx Proofs.ReverseGauge Proofs.ReverseFwd Proofs.ReverseTop Proofs.ExactDefs.
Import ListNotations.

Section Amp.
  Variable R : cring.
  Add Ring Rring_exact_amp : (k_rt R).
  Notation site := (site R).
  Notation mx := (mx R).
  Variable d : nat.
  Variable Ds : nat -> nat.
  Hypothesis Hd : 0 < d.

  Lemma nr_mprod_pick (As : list site) (w : list nat) D :
    (forall A s, hd_error As = Some A -> hd_error w = Some s -> nr (sel A s) = D) -> nr (mprod D (pick As w)) = D.
  Proof.
    intros H. destruct As as [|A As]; [reflexivity|]. destruct w as [|s w]; [reflexivity|].
    cbn [pick mprod]. rewrite nr_mulmx. apply H; reflexivity.
  Qed.

  Lemma mprod_pair_ext (As : list site) : forall (Bs : list site) k i (w : list nat) n,
    length Bs = length As -> length w = length As -> Forall (fun s => s < d) w -> S i < length As ->
    (forall j, j < length As -> wsite d (Ds (k + j)) (Ds (S (k + j))) (nth j As [])) ->
    (forall j, j < length As -> wsite d (Ds (k + j)) (Ds (S (k + j))) (nth j Bs [])) ->
    (forall j, j < length As -> j <> i -> j <> S i -> nth j Bs [] = nth j As []) ->
    (forall s t, s < d -> t < d ->
       mulmx (sel (nth i As []) s) (sel (nth (S i) As []) t) = mulmx (sel (nth i Bs []) s) (sel (nth (S i) Bs []) t)) ->
    mprod n (pick As w) = mprod n (pick Bs w).
  Proof.
    induction As as [|A As IH]; intros Bs k i w n lB lw Fw Hi HA HB Hoth Hpair; [cbn [length] in Hi; lia|].
    destruct Bs as [|B Bs]; [discriminate|]. destruct w as [|s w]; [discriminate|]. cbn [length] in *.
    inversion Fw as [|? ? Hs Fw']; subst.
    destruct i as [|i].
    - destruct As as [|A2 As]; [cbn [length] in Hi; lia|]. destruct Bs as [|B2 Bs]; [discriminate|]. destruct w as [|t w]; [discriminate|].
      cbn [length] in *. inversion Fw' as [|? ? Ht Fw'']; subst.
      assert (EBs : Bs = As).
      { apply (list_eq_nth ([] : site)); [lia|]. intros j Hj. apply (Hoth (S (S j))); lia. }
      subst Bs.
      pose proof (HA 0 ltac:(lia)) as a0. pose proof (HA 1 ltac:(lia)) as a1. pose proof (HB 0 ltac:(lia)) as b0. pose proof (HB 1 ltac:(lia)) as b1.
      cbn [nth] in a0, a1, b0, b1. rewrite Nat.add_0_r in a0, b0. rewrite Nat.add_1_r in a1, b1.
      destruct (wsite_sel R _ _ _ _ s a0 Hs) as (_ & x1 & x2). destruct (wsite_sel R _ _ _ _ t a1 Ht) as (_ & y1 & y2).
      destruct (wsite_sel R _ _ _ _ s b0 Hs) as (_ & u1 & u2). destruct (wsite_sel R _ _ _ _ t b1 Ht) as (_ & v1 & v2).
      specialize (Hpair s t Hs Ht). cbn [nth] in Hpair.
      cbn [pick mprod]. rewrite y2, v2.
      assert (HT : nr (mprod (Ds (S (S k))) (pick As w)) = Ds (S (S k))).
      { apply nr_mprod_pick. intros A3 u EA Eu. destruct As as [|A3' As']; [discriminate|]. destruct w as [|u' w']; [discriminate|].
        injection EA as <-. injection Eu as <-. pose proof (HA 2 ltac:(cbn [length]; lia)) as a2. cbn [nth] in a2.
        inversion Fw'' as [|? ? Hu _]; subst. destruct (wsite_sel R _ _ _ _ u' a2 Hu) as (_ & z1 & _).
        rewrite z1. f_equal. lia. }
      rewrite <- (mulmx_assoc R (sel A s) (sel A2 t)) by (rewrite ?HT; congruence).
      rewrite <- (mulmx_assoc R (sel B s) (sel B2 t)) by (rewrite ?HT; congruence).
      rewrite Hpair. reflexivity.
    - assert (EB : B = A) by (apply (Hoth 0); lia). subst B.
      cbn [pick mprod]. f_equal.
      apply (IH Bs (S k) i w); try assumption; try lia.
      + intros j Hj. specialize (HA (S j) ltac:(lia)). cbn [nth] in HA. rewrite Nat.add_succ_r in HA. exact HA.
      + intros j Hj. specialize (HB (S j) ltac:(lia)). cbn [nth] in HB. rewrite Nat.add_succ_r in HB. exact HB.
      + intros j Hj N1 N2. apply (Hoth (S j)); lia.
  Qed.

  Theorem dense_pair_ext L (As Bs : list site) i :
    length As = L -> length Bs = L -> S i < L ->
    (forall j, j < L -> wsite d (Ds j) (Ds (S j)) (nth j As [])) ->
    (forall j, j < L -> wsite d (Ds j) (Ds (S j)) (nth j Bs [])) ->
    (forall j, j < L -> j <> i -> j <> S i -> nth j Bs [] = nth j As []) ->
    (forall s t, s < d -> t < d ->
       mulmx (sel (nth i As []) s) (sel (nth (S i) As []) t) = mulmx (sel (nth i Bs []) s) (sel (nth (S i) Bs []) t)) ->
    dense d L As = dense d L Bs.
  Proof.
    intros lA lB Hi HA HB Hoth Hpair. unfold dense. apply map_ext_in. intros w Hw.
    destruct (words_in d Hd L w Hw) as [lw Fw]. unfold amp. f_equal.
    apply (mprod_pair_ext As Bs 0 i w 1); try assumption; try lia.
    - intros j Hj. apply HA. lia.
    - intros j Hj. apply HB. lia.
    - intros j Hj. apply Hoth. lia.
  Qed.

  (* chains that agree at every site *)
  Lemma list_nth_eq (As Bs : list site) L : length As = L -> length Bs = L -> (forall j, j < L -> nth j Bs [] = nth j As []) -> Bs = As.
  Proof. intros lA lB H. apply (list_eq_nth ([] : site)); [lia|]. intros j Hj. apply H. lia. Qed.

  (* the two bond moves, in the pointwise form used by the sweep invariants *)
  Lemma pair_move_left Dl k Dr (Aq B : site) (C : mx) s t : s < d -> t < d ->
    wsite d Dl k Aq -> wmx k k C -> wsite d k Dr B ->
    mulmx (sel (rmul_site Aq C) s) (sel B t) = mulmx (sel Aq s) (sel (lmul_site C B) t).
  Proof.
    intros Hs Ht HAq (c0 & c1 & c2) HB.
    destruct (wsite_sel R _ _ _ _ s HAq Hs) as (_ & a1 & a2). destruct (wsite_sel R _ _ _ _ t HB Ht) as (_ & b1 & b2).
    unfold rmul_site, lmul_site. rewrite (sel_map_w R (fun M => mulmx M C)) by (rewrite (proj1 HAq); exact Hs).
    rewrite (sel_map_w R (mulmx C)) by (rewrite (proj1 HB); exact Ht).
    apply mulmx_assoc; congruence.
  Qed.
End Amp.
