(* Link 2 (C04 <-> C14/C15): site tensors <-> vectors in the row-major order of numpy's reshape(-1) on shape (d, Dl, Dr);
   site_dot <-> vdot; the flattened local operator  x |-> (op (x.reshape(shape))).reshape(-1)  is length preserving,
   linear and self-adjoint w.r.t. vdot whenever [op] is entrywise linear and self-adjoint w.r.t. site_dot.
   Instances: apply_local_hamiltonian (one-site and merged two-site problems) and apply_local_bond_contraction
   (the bond matrix is the one-matrix site [C], shape (1, Dl, Dr): the same flat order as C.reshape(-1)). *)
From Coq Require Import ZArith List Bool Arith Lia Ring Field.
From PT Require Import Base.Scalar Base.Field Base.BigSum Base.Mx Model.Tensor Model.Operation Model.Krylov
  Proofs.OperationEntries Proofs.KrylovVec Proofs.KrylovLanczos Proofs.KrylovMatvec Proofs.KrylovRitz.
Import ListNotations.

Section Flatten.
  Variable F : ofield.
  Notation K := (Cx F).
  Add Ring Kring_lfl : (k_rt (Cx F)).
  Notation vec := (list K).
  Notation site := (site K).
  Notation "0" := (k0 K). Notation "1" := (k1 K).
  Infix "+" := (kadd K). Infix "*" := (kmul K).
  Notation conj := (kconj K).
  Variables d Dl Dr : nat.
  Notation n := (d * Dl * Dr)%nat.

  (* flat index of the entry [s, a, c] of an array of shape (d, Dl, Dr) *)
  Definition fidx (s a c : nat) : nat := ((s * Dl + a) * Dr + c)%nat.
  (* A.reshape(-1) *)
  Definition site_vec (A : site) : vec :=
    map (fun i => get (sel A (i / Dr / Dl)) ((i / Dr) mod Dl) (i mod Dr)) (seq 0 n).
  (* x.reshape((d, Dl, Dr)) *)
  Definition vec_site (x : vec) : site :=
    tabl d (fun s => tab Dl Dr (fun a c => nth (fidx s a c) x 0)).

  Lemma length_site_vec A : length (site_vec A) = n.
  Proof. unfold site_vec. rewrite map_length, seq_length. reflexivity. Qed.

  Lemma fidx_lt s a c : (s < d -> a < Dl -> c < Dr -> fidx s a c < n)%nat.
  Proof.
    intros Hs Ha Hc. unfold fidx.
    assert (H1 : ((s + 1) * Dl <= d * Dl)%nat) by (apply Nat.mul_le_mono_r; lia).
    assert (H2 : ((s * Dl + a + 1) * Dr <= d * Dl * Dr)%nat) by (apply Nat.mul_le_mono_r; lia).
    lia.
  Qed.

  Lemma fidx_decomp s a c : (a < Dl)%nat -> (c < Dr)%nat ->
    (fidx s a c / Dr / Dl = s /\ (fidx s a c / Dr) mod Dl = a /\ fidx s a c mod Dr = c)%nat.
  Proof.
    intros Ha Hc. unfold fidx.
    assert (E1 : (((s * Dl + a) * Dr + c) / Dr = s * Dl + a)%nat).
    { symmetry. apply (Nat.div_unique _ Dr _ c); [exact Hc|lia]. }
    assert (E2 : (((s * Dl + a) * Dr + c) mod Dr = c)%nat).
    { symmetry. apply (Nat.mod_unique _ Dr (s * Dl + a)%nat c); [exact Hc|lia]. }
    rewrite E1, E2. split; [|split; [|reflexivity]].
    - symmetry. apply (Nat.div_unique _ Dl _ a); [exact Ha|lia].
    - symmetry. apply (Nat.mod_unique _ Dl s a); [exact Ha|lia].
  Qed.

  Lemma fidx_recomp i : (i < n)%nat ->
    (i / Dr / Dl < d /\ (i / Dr) mod Dl < Dl /\ i mod Dr < Dr /\ fidx (i / Dr / Dl) ((i / Dr) mod Dl) (i mod Dr) = i)%nat.
  Proof.
    intros Hi. assert (HDr : Dr <> 0%nat) by (intros E; rewrite E in Hi; lia).
    assert (HDl : Dl <> 0%nat) by (intros E; rewrite E in Hi; lia).
    pose proof (Nat.div_mod i Dr HDr) as E1. pose proof (Nat.div_mod (i / Dr) Dl HDl) as E2.
    pose proof (Nat.mod_upper_bound i Dr HDr) as B1. pose proof (Nat.mod_upper_bound (i / Dr) Dl HDl) as B2.
    assert (Q1 : (i / Dr < d * Dl)%nat). { apply Nat.div_lt_upper_bound; [exact HDr|lia]. }
    assert (Q2 : (i / Dr / Dl < d)%nat). { apply Nat.div_lt_upper_bound; [exact HDl|lia]. }
    repeat split; try assumption. unfold fidx.
    rewrite E1 at 4. rewrite E2 at 3. lia.
  Qed.

  Lemma nth_site_vec_raw A i : (i < n)%nat ->
    nth i (site_vec A) 0 = get (sel A (i / Dr / Dl)) ((i / Dr) mod Dl) (i mod Dr).
  Proof. intros Hi. exact (nth_map_seq 0 n (fun i => get (sel A (i / Dr / Dl)) ((i / Dr) mod Dl) (i mod Dr)) i Hi). Qed.

  Lemma nth_site_vec A s a c : (s < d)%nat -> (a < Dl)%nat -> (c < Dr)%nat ->
    nth (fidx s a c) (site_vec A) 0 = get (sel A s) a c.
  Proof.
    intros Hs Ha Hc. rewrite nth_site_vec_raw by (apply fidx_lt; assumption).
    destruct (fidx_decomp s a c Ha Hc) as (E1 & E2 & E3). rewrite E1, E2, E3. reflexivity.
  Qed.

  Lemma sel_vec_site x s : (s < d)%nat -> sel (vec_site x) s = tab Dl Dr (fun a c => nth (fidx s a c) x 0).
  Proof. intros Hs. exact (nth_map_seq (zeromx 0 0) d (fun s => tab Dl Dr (fun a c => nth (fidx s a c) x 0)) s Hs). Qed.

  Lemma get_vec_site x s a c : (s < d)%nat -> (a < Dl)%nat -> (c < Dr)%nat ->
    get (sel (vec_site x) s) a c = nth (fidx s a c) x 0.
  Proof. intros Hs Ha Hc. rewrite sel_vec_site by exact Hs. apply get_tab; assumption. Qed.

  Lemma vec_site_ok x : site_ok d Dl Dr (vec_site x).
  Proof.
    split; [unfold vec_site, tabl; rewrite map_length, seq_length; reflexivity|].
    intros s Hs. rewrite sel_vec_site by exact Hs. split; reflexivity.
  Qed.

  Lemma site_vec_ext A B :
    (forall s a c, (s < d)%nat -> (a < Dl)%nat -> (c < Dr)%nat -> get (sel A s) a c = get (sel B s) a c) ->
    site_vec A = site_vec B.
  Proof.
    intros H. unfold site_vec. apply map_ext_in. intros i Hi. apply in_seq in Hi.
    destruct (fidx_recomp i ltac:(lia)) as (H1 & H2 & H3 & _). apply H; assumption.
  Qed.

  Lemma site_vec_vec_site x : length x = n -> site_vec (vec_site x) = x.
  Proof.
    intros Hx. apply (nth_ext _ _ 0 0); [rewrite length_site_vec; symmetry; exact Hx|].
    intros i Hi. rewrite length_site_vec in Hi. rewrite nth_site_vec_raw by exact Hi.
    destruct (fidx_recomp i Hi) as (H1 & H2 & H3 & E). rewrite get_vec_site by assumption. rewrite E. reflexivity.
  Qed.

  (* entries of (x.reshape(shape)).reshape(-1).reshape(shape) *)
  Lemma get_vec_site_vec A s a c : (s < d)%nat -> (a < Dl)%nat -> (c < Dr)%nat ->
    get (sel (vec_site (site_vec A)) s) a c = get (sel A s) a c.
  Proof. intros Hs Ha Hc. rewrite get_vec_site, nth_site_vec by assumption. reflexivity. Qed.

  Lemma sumn_fidx (f : nat -> K) :
    sumn n f = sumn d (fun s => sumn Dl (fun a => sumn Dr (fun c => f (fidx s a c)))).
  Proof. rewrite (sumn_flatten (Cx F) (d * Dl) Dr f). rewrite (sumn_flatten (Cx F) d Dl). reflexivity. Qed.

  (* np.vdot(Y.reshape(-1), X.reshape(-1)) = <Y|X> *)
  Lemma vdot_site_vec Y X : (0 < d)%nat -> site_ok d Dl Dr Y -> vdot (site_vec Y) (site_vec X) = site_dot Y X.
  Proof.
    intros Hd HY. destruct (site_ok_sdl K d Dl Dr Y Hd HY) as (E1 & E2 & E3).
    rewrite (vdot_sumn F n) by apply length_site_vec. rewrite sumn_fidx. unfold site_dot. rewrite E1, E2, E3.
    apply (sumn_ext (Cx F)). intros s Hs. apply (sumn_ext (Cx F)). intros a Ha. apply (sumn_ext (Cx F)). intros c Hc.
    rewrite !nth_site_vec by assumption. reflexivity.
  Qed.

  (* ---- pointwise vector operations ---- *)
  Lemma nth_vadd (x y : vec) i : length x = length y -> nth i (vadd x y) 0 = nth i x 0 + nth i y 0.
  Proof.
    revert y i; induction x as [|a x IH]; intros [|b y] i H; cbn [length] in H; try discriminate.
    - destruct i; cbn [vadd zipw nth]; ring.
    - destruct i; cbn [vadd zipw nth]; [reflexivity|]. apply IH. lia.
  Qed.
  Lemma nth_cscale c (x : vec) i : nth i (cscale c x) 0 = c * nth i x 0.
  Proof.
    revert i; induction x as [|a x IH]; intros i; cbn [cscale map].
    - destruct i; cbn [nth]; ring.
    - destruct i; cbn [nth]; [reflexivity|]. apply IH.
  Qed.
  Lemma nth_vzero m i : nth i (@vzero F m) 0 = 0.
  Proof. unfold vzero. revert i; induction m as [|m IH]; intros [|i]; cbn [repeat nth]; auto. Qed.

  (* ---- an entrywise linear, self-adjoint operator on site tensors of shape (d, Dl, Dr) ---- *)
  Definition entry_add (X Y Z : site) : Prop :=
    forall s a c, (s < d)%nat -> (a < Dl)%nat -> (c < Dr)%nat -> get (sel Z s) a c = get (sel X s) a c + get (sel Y s) a c.
  Definition entry_scal (k : K) (X Z : site) : Prop :=
    forall s a c, (s < d)%nat -> (a < Dl)%nat -> (c < Dr)%nat -> get (sel Z s) a c = k * get (sel X s) a c.
  Record local_op (op : site -> site) : Prop := {
    lop_ok : forall X, site_ok d Dl Dr X -> site_ok d Dl Dr (op X);
    lop_add : forall X Y Z, site_ok d Dl Dr X -> site_ok d Dl Dr Y -> site_ok d Dl Dr Z ->
                entry_add X Y Z -> entry_add (op X) (op Y) (op Z);
    lop_scal : forall k X Z, site_ok d Dl Dr X -> site_ok d Dl Dr Z -> entry_scal k X Z -> entry_scal k (op X) (op Z)
  }.
  (* self-adjointness w.r.t. site_dot (C04_heff_hermitian gives it for the effective Hamiltonian of a Hermitian MPO) *)
  Definition local_sa (op : site -> site) : Prop :=
    forall X Y, site_ok d Dl Dr X -> site_ok d Dl Dr Y -> site_dot Y (op X) = conj (site_dot X (op Y)).

  Section FlatOp.
    Variable op : site -> site.
    Hypothesis Hd : (0 < d)%nat.
    Hypothesis Hop : local_op op.

    (* lambda x: op(x.reshape(shape)).reshape(-1) *)
    Definition flat_op (x : vec) : vec := site_vec (op (vec_site x)).

    Lemma flat_op_len : maps_len F n flat_op.
    Proof. intros x _. apply length_site_vec. Qed.

    Lemma nth_flat_op x i : (i < n)%nat ->
      nth i (flat_op x) 0 = get (sel (op (vec_site x)) (i / Dr / Dl)) ((i / Dr) mod Dl) (i mod Dr).
    Proof. intros Hi. apply nth_site_vec_raw. exact Hi. Qed.

    Lemma flat_op_ext (A B : site) : site_ok d Dl Dr A -> site_ok d Dl Dr B ->
      (forall s a c, (s < d)%nat -> (a < Dl)%nat -> (c < Dr)%nat -> get (sel A s) a c = get (sel B s) a c) ->
      site_vec (op A) = site_vec (op B).
    Proof.
      intros HA HB H. apply site_vec_ext. intros s a c Hs Ha Hc.
      rewrite (lop_scal op Hop 1 B A HB HA) by (try assumption; intros s' a' c' Hs' Ha' Hc'; rewrite H by assumption; ring).
      ring.
    Qed.

    Lemma flat_op_linear : linear F n flat_op.
    Proof.
      split; [|split].
      - intros x y Hx Hy. apply (nth_ext _ _ 0 0).
        + rewrite (length_vadd F n) by apply length_site_vec. apply length_site_vec.
        + intros i Hi. unfold flat_op in Hi. rewrite length_site_vec in Hi.
          rewrite nth_vadd by (unfold flat_op; rewrite !length_site_vec; reflexivity).
          rewrite !nth_flat_op by exact Hi. destruct (fidx_recomp i Hi) as (H1 & H2 & H3 & _).
          apply (lop_add op Hop (vec_site x) (vec_site y) (vec_site (vadd x y))); try apply vec_site_ok; try assumption.
          intros s a c Hs Ha Hc. rewrite !get_vec_site by assumption. apply nth_vadd. congruence.
      - intros k x Hx. apply (nth_ext _ _ 0 0).
        + rewrite (length_cscale F n) by apply length_site_vec. apply length_site_vec.
        + intros i Hi. unfold flat_op in Hi. rewrite length_site_vec in Hi.
          rewrite nth_cscale. rewrite !nth_flat_op by exact Hi. destruct (fidx_recomp i Hi) as (H1 & H2 & H3 & _).
          apply (lop_scal op Hop k (vec_site x) (vec_site (cscale k x))); try apply vec_site_ok; try assumption.
          intros s a c Hs Ha Hc. rewrite !get_vec_site by assumption. apply nth_cscale.
      - apply (nth_ext _ _ 0 0).
        + rewrite length_vzero. apply length_site_vec.
        + intros i Hi. unfold flat_op in Hi. rewrite length_site_vec in Hi.
          rewrite nth_vzero, nth_flat_op by exact Hi. destruct (fidx_recomp i Hi) as (H1 & H2 & H3 & _).
          rewrite (lop_scal op Hop 0 (vec_site (vzero n)) (vec_site (vzero n))); try apply vec_site_ok; try assumption; [ring|].
          intros s a c Hs Ha Hc. rewrite !get_vec_site by assumption. rewrite nth_vzero. ring.
    Qed.

    (* <X | op Y> through the flat map *)
    Lemma vdot_flat_op (x y : vec) : length x = n ->
      vdot x (flat_op y) = site_dot (vec_site x) (op (vec_site y)).
    Proof.
      intros Hx. rewrite <- (site_vec_vec_site x Hx) at 1. unfold flat_op.
      apply vdot_site_vec; [exact Hd|apply vec_site_ok].
    Qed.

    Lemma flat_op_self_adjoint : local_sa op -> self_adjoint F n flat_op.
    Proof.
      intros Hsa x y Hx Hy. rewrite <- (vdot_conj F y (flat_op x)). rewrite !vdot_flat_op by assumption.
      rewrite (Hsa (vec_site x) (vec_site y)) by apply vec_site_ok. rewrite kconj_inv. reflexivity.
    Qed.

    (* at a flattened tensor the flat operator is the flattened image *)
    Lemma flat_op_site_vec A : site_ok d Dl Dr A -> flat_op (site_vec A) = site_vec (op A).
    Proof.
      intros HA. unfold flat_op. apply flat_op_ext; [apply vec_site_ok|exact HA|].
      intros s a c Hs Ha Hc. apply get_vec_site_vec; assumption.
    Qed.

    Lemma site_dot_via_vec A B : site_ok d Dl Dr A -> site_dot A B = vdot (site_vec A) (site_vec B).
    Proof. intros HA. symmetry. apply vdot_site_vec; assumption. Qed.

    Lemma site_vec_nonzero A : site_ok d Dl Dr A -> site_dot A A <> 0 -> site_vec A <> vzero n.
    Proof.
      intros HA Hne E. apply Hne. rewrite (site_dot_via_vec A A HA), E. apply vdot_zero_r.
    Qed.
  End FlatOp.
End Flatten.

