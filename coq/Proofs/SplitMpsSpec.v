(* C12: full specification of pytenet.mps.split_mps_tensor (Model/SplitMps.v [split_mps_tensor_full] = reshape +
   [block_svd] + distribution of the singular values + reshape back) for every tolerance and the three distributions. *)
From Coq Require Import ZArith List Bool Lia Arith Permutation Sorted Ring Field.
From PT Require Import Base.Scalar Base.Field Base.BigSum Base.Mx Model.Tensor Model.MPSOps Model.BondOps Model.Orthonormalize Model.SplitMps.
From PT Require Import Proofs.MPSOpsBase Proofs.MPSOpsTop Proofs.MPSOpsShape Proofs.HistSparse Proofs.HistOps.
From PT Require Import Proofs.BondOpsPerm Proofs.BondOpsLoop Proofs.BondOpsSpec Proofs.BondOpsRetained Proofs.BondOpsFrob Proofs.BondOpsSVD.
From PT Require Import Proofs.CompressSVD Proofs.OrthDefs Proofs.SplitMpsReshape Proofs.SplitMpsAgree.
Import ListNotations.
Open Scope nat_scope.

Section Spec.
  Variable F : ofield.
  Add Field Ffield_splitmps : (f_ft F).
  Notation CF := (Cx F).
  Add Ring CFring_splitmps : (k_rt CF).
  Notation mx := (mx CF).
  Notation site := (site CF).
  Notation cO := (k0 CF). Notation cI := (k1 CF).
  Infix "*!" := (kmul CF) (at level 40, left associativity).
  Notation cj := (kconj CF).
  Notation emb := (@cof F).
  Variable dsvd : mx -> mx * list F * mx.
  Variable pick : list F -> list nat.
  Variable ksqrt : F -> F.

  (* ---------------------------------------------------------------------------------------------- *)
  (* tensors and their matricisation                                                                  *)
  (* ---------------------------------------------------------------------------------------------- *)
  Lemma site_zero_of_matrix d0 d1 D0 D2 (A : site) :
    site_shape (d0 * d1) D0 D2 A = true -> 0 < d0 * d1 ->
    is_zeromx (split_matrix d0 d1 A) = true -> site_is_zero A = true.
  Proof.
    intros HA Hpos HM. unfold site_is_zero. apply forallb_forall. intros M0 HM0.
    destruct (In_nth _ _ (zeromx 0 0) HM0) as (s & Hs & <-). fold (sel A s).
    rewrite (site_shape_length _ _ _ _ _ HA) in Hs.
    destruct (site_shape_sel _ _ _ _ _ s HA Hs) as (_ & rA & cA).
    apply is_zeromx_true. rewrite rA, cA. intros a c Ha Hc.
    assert (Hd1 : 0 < d1) by nia.
    assert (Es : s = s / d1 * d1 + s mod d1) by (rewrite Nat.mul_comm; apply Nat.div_mod; lia).
    assert (H0 : s / d1 < d0) by (apply Nat.div_lt_upper_bound; [lia|rewrite Nat.mul_comm; exact Hs]).
    assert (H1 : s mod d1 < d1) by (apply Nat.mod_upper_bound; lia).
    rewrite Es. rewrite <- (get_split_matrix CF d0 d1 D0 D2 A) by assumption.
    apply (is_zeromx_spec F _ HM).
    - rewrite (nr_split_matrix CF d0 d1 D0 D2 A HA Hpos). nia.
    - rewrite (nc_split_matrix CF d0 d1 D0 D2 A HA Hpos). nia.
  Qed.

  Lemma matrix_zero_of_site d0 d1 D0 D2 (A : site) :
    site_shape (d0 * d1) D0 D2 A = true -> 0 < d0 * d1 ->
    site_is_zero A = true -> is_zeromx (split_matrix d0 d1 A) = true.
  Proof.
    intros HA Hpos HZ. apply is_zeromx_true.
    rewrite (nr_split_matrix CF d0 d1 D0 D2 A HA Hpos), (nc_split_matrix CF d0 d1 D0 D2 A HA Hpos).
    intros i j Hi Hj.
    assert (HD0 : 0 < D0) by nia. assert (HD2 : 0 < D2) by nia.
    assert (Ei : i = i / D0 * D0 + i mod D0) by (rewrite Nat.mul_comm; apply Nat.div_mod; lia).
    assert (Ej : j = j / D2 * D2 + j mod D2) by (rewrite Nat.mul_comm; apply Nat.div_mod; lia).
    assert (Hi0 : i / D0 < d0) by (apply Nat.div_lt_upper_bound; [lia|rewrite Nat.mul_comm; exact Hi]).
    assert (Hj0 : j / D2 < d1) by (apply Nat.div_lt_upper_bound; [lia|rewrite Nat.mul_comm; exact Hj]).
    assert (Hi1 : i mod D0 < D0) by (apply Nat.mod_upper_bound; lia).
    assert (Hj1 : j mod D2 < D2) by (apply Nat.mod_upper_bound; lia).
    rewrite Ei, Ej. rewrite (get_split_matrix CF d0 d1 D0 D2 A) by assumption.
    assert (Hs : i / D0 * d1 + j / D2 < d0 * d1) by nia.
    destruct (site_shape_sel _ _ _ _ _ _ HA Hs) as (_ & rA & cA).
    unfold site_is_zero in HZ. rewrite forallb_forall in HZ.
    apply (is_zeromx_spec F (sel A (i / D0 * d1 + j / D2))).
    - apply HZ. apply nth_In. rewrite (site_shape_length _ _ _ _ _ HA). exact Hs.
    - rewrite rA. exact Hi1.
    - rewrite cA. exact Hj1.
  Qed.

  (* squared norm of the tensor = squared Frobenius norm of its matricisation *)
  Lemma nrm2_matrix d0 d1 D0 D2 (A : site) :
    site_shape (d0 * d1) D0 D2 A = true -> 0 < d0 * d1 ->
    site_nrm2 A = frob (split_matrix d0 d1 A) (split_matrix d0 d1 A).
  Proof.
    intros HA Hpos. unfold site_nrm2, frob.
    rewrite (site_shape_length _ _ _ _ _ HA).
    rewrite (nr_split_matrix CF d0 d1 D0 D2 A HA Hpos), (nc_split_matrix CF d0 d1 D0 D2 A HA Hpos).
    rewrite <- (sum_sites_as_matrix CF d0 d1 D0 D2 A A (fun x y => cj x *! y)
                  (get (split_matrix d0 d1 A)) (get (split_matrix d0 d1 A))).
    - apply sumn_ext. intros s Hs. destruct (site_shape_sel _ _ _ _ _ s HA Hs) as (_ & rA & cA).
      rewrite rA, cA. reflexivity.
    - nia.
    - intros. symmetry. apply (get_split_matrix CF d0 d1 D0 D2 A); assumption.
    - intros. symmetry. apply (get_split_matrix CF d0 d1 D0 D2 A); assumption.
  Qed.

  (* squared distance between the tensor and a merged pair = squared Frobenius distance of the matrices *)
  Lemma dist2_matrix d0 d1 D0 D2 k (p q : nat -> nat -> CF) (A : site) :
    site_shape (d0 * d1) D0 D2 A = true -> 0 < d0 * d1 ->
    site_dist2 A (merge_mps_tensor_pair (lsite d0 D0 k p) (rsite d1 D2 k q))
    = sumn (d0 * D0) (fun i => sumn (d1 * D2) (fun j =>
        cj (ksub CF (get (split_matrix d0 d1 A) i j) (sumn k (fun l => p i l *! q l j)))
        *! ksub CF (get (split_matrix d0 d1 A) i j) (sumn k (fun l => p i l *! q l j)))).
  Proof.
    intros HA Hpos. unfold site_dist2. rewrite (site_shape_length _ _ _ _ _ HA).
    rewrite <- (sum_sites_as_matrix CF d0 d1 D0 D2 A (merge_mps_tensor_pair (lsite d0 D0 k p) (rsite d1 D2 k q))
                  (fun x y => cj (ksub CF x y) *! ksub CF x y)
                  (get (split_matrix d0 d1 A)) (fun i j => sumn k (fun l => p i l *! q l j))).
    - apply sumn_ext. intros s Hs. destruct (site_shape_sel _ _ _ _ _ s HA Hs) as (_ & rA & cA).
      unfold frob. unfold submx at 1 2. rewrite nr_tab, nc_tab, rA, cA.
      apply sumn_ext. intros a Ha. apply sumn_ext. intros c Hc.
      unfold submx. rewrite rA, cA. rewrite !get_tab by assumption. reflexivity.
    - nia.
    - intros. symmetry. apply (get_split_matrix CF d0 d1 D0 D2 A); assumption.
    - intros. apply get_merge_lr; assumption.
  Qed.

  (* ---------------------------------------------------------------------------------------------- *)
  (* the distribution of the singular values                                                          *)
  (* ---------------------------------------------------------------------------------------------- *)
  Definition pL (distr : nat) (u : mx) (s : list F) : nat -> nat -> CF := fun r i => get u r i *! wleft ksqrt distr s i.
  Definition qR (distr : nat) (v : mx) (s : list F) : nat -> nat -> CF := fun i c => wright ksqrt distr s i *! get v i c.

  Lemma wl_wr distr (s : list F) l : distr <= 2 ->
    (distr = 2 -> fmul F (ksqrt (nth l s (f0 F))) (ksqrt (nth l s (f0 F))) = nth l s (f0 F)) ->
    wleft ksqrt distr s l *! wright ksqrt distr s l = emb (nth l s (f0 F)).
  Proof.
    intros Hd Hsq. unfold wleft, wright. destruct distr as [|[|[|n]]]; [ring|ring| |lia].
    rewrite (cof_mul F). f_equal. apply Hsq. reflexivity.
  Qed.

  (* (u wl)(wr v) = (u * s) v entrywise *)
  Lemma pq_usv distr (u v : mx) (s : list F) i j : nc u = length s -> nr v = length s -> i < nr u -> j < nc v ->
    distr <= 2 ->
    (distr = 2 -> forall l, l < length s -> fmul F (ksqrt (nth l s (f0 F))) (ksqrt (nth l s (f0 F))) = nth l s (f0 F)) ->
    sumn (length s) (fun l => pL distr u s i l *! qR distr v s l j) = get (mulmx (scalecols F u s) v) i j.
  Proof.
    intros Hcu Hrv Hi Hj Hd Hsq. rewrite get_mulmx by (rewrite ?nr_scalecols; assumption).
    rewrite nc_scalecols, Hcu. apply sumn_ext. intros l Hl. unfold pL, qR, scalecols.
    rewrite get_tab by lia. rewrite <- (wl_wr distr s l Hd) by (intros E; apply Hsq; assumption). ring.
  Qed.

  (* Gram sums of the left factor:  sum_r conj(u[r,i] wl_i) u[r,j] wl_j = conj(wl_i) wl_j delta_ij *)
  Lemma gram_pL distr (u : mx) (s : list F) m i j : nr u = m -> nc u = length s ->
    mulmx (adjmx u) u = idmx (length s) -> i < length s -> j < length s ->
    sumn m (fun r => cj (pL distr u s r i) *! pL distr u s r j)
    = cj (wleft ksqrt distr s i) *! wleft ksqrt distr s j *! delta CF i j.
  Proof.
    intros Hr Hc HUU Hi Hj.
    assert (E : get (mulmx (adjmx u) u) i j = get (idmx (length s)) i j) by (rewrite HUU; reflexivity).
    rewrite get_mulmx in E by (rewrite ?nr_adjmx; lia). rewrite get_idmx in E by assumption.
    rewrite nc_adjmx, Hr in E. unfold delta. rewrite <- E. rewrite <- sumn_scal_l.
    apply sumn_ext. intros r Hr'. rewrite get_adjmx by lia. unfold pL. rewrite kconj_mul. ring.
  Qed.
  Lemma gram_qR distr (v : mx) (s : list F) n i j : nc v = n -> nr v = length s ->
    mulmx v (adjmx v) = idmx (length s) -> i < length s -> j < length s ->
    sumn n (fun c => qR distr v s i c *! cj (qR distr v s j c))
    = wright ksqrt distr s i *! cj (wright ksqrt distr s j) *! delta CF i j.
  Proof.
    intros Hc Hr HVV Hi Hj.
    assert (E : get (mulmx v (adjmx v)) i j = get (idmx (length s)) i j) by (rewrite HVV; reflexivity).
    rewrite get_mulmx in E by (rewrite ?nc_adjmx; lia). rewrite get_idmx in E by assumption.
    rewrite Hc in E. unfold delta. rewrite <- E. rewrite <- sumn_scal_l.
    apply sumn_ext. intros c Hc'. rewrite get_adjmx by lia. unfold qR. rewrite kconj_mul. ring.
  Qed.

  (* matrix forms of the Gram sums *)
  Lemma gram_l_lsite d0 D0 k (p : nat -> nat -> CF) : 0 < d0 ->
    gram_l (lsite d0 D0 k p) = tab k k (fun i j => sumn (d0 * D0) (fun r => cj (p r i) *! p r j)).
  Proof.
    intros Hd. unfold gram_l, sDr.
    assert (E0 : nc (sel (lsite d0 D0 k p) 0) = k) by (unfold lsite; rewrite sel_stab by exact Hd; reflexivity).
    rewrite E0. apply tab_ext. intros i j Hi Hj.
    rewrite <- (lsite_gram CF d0 D0 k p i j Hi Hj). apply sumn_ext. intros s Hs. rewrite length_lsite in Hs.
    assert (Es : nr (sel (lsite d0 D0 k p) s) = D0 /\ nc (sel (lsite d0 D0 k p) s) = k)
      by (unfold lsite; rewrite sel_stab by exact Hs; split; reflexivity).
    destruct Es as [Er Ec].
    rewrite get_mulmx by (rewrite ?nr_adjmx, ?Ec; assumption). rewrite nc_adjmx, Er.
    apply sumn_ext. intros a Ha. rewrite get_adjmx by (rewrite ?Er, ?Ec; assumption). reflexivity.
  Qed.
  Lemma gram_r_rsite d1 D2 k (q : nat -> nat -> CF) : 0 < d1 ->
    gram_r (rsite d1 D2 k q) = tab k k (fun i j => sumn (d1 * D2) (fun r => q i r *! cj (q j r))).
  Proof.
    intros Hd. unfold gram_r, sDl.
    assert (E0 : nr (sel (rsite d1 D2 k q) 0) = k) by (unfold rsite; rewrite sel_stab by exact Hd; reflexivity).
    rewrite E0. apply tab_ext. intros i j Hi Hj.
    rewrite <- (rsite_gram CF d1 D2 k q i j Hi Hj). apply sumn_ext. intros s Hs. rewrite length_rsite in Hs.
    assert (Es : nr (sel (rsite d1 D2 k q) s) = k /\ nc (sel (rsite d1 D2 k q) s) = D2)
      by (unfold rsite; rewrite sel_stab by exact Hs; split; reflexivity).
    destruct Es as [Er Ec].
    rewrite get_mulmx by (rewrite ?nc_adjmx, ?Er; assumption). rewrite Ec.
    apply sumn_ext. intros c Hc. rewrite get_adjmx by (rewrite ?Er, ?Ec; assumption). reflexivity.
  Qed.

  (* ---------------------------------------------------------------------------------------------- *)
  (* the specification                                                                                *)
  (* ---------------------------------------------------------------------------------------------- *)
  Theorem split_mps_spec (A : site) (qd0 qd1 qD0 qD2 : list Z) (rest : list (list Z)) (distr : nat) (tol : F) :
    let d0 := length qd0 in let d1 := length qd1 in let D0 := length qD0 in let D2 := length qD2 in
    0 < d0 * d1 ->
    site_shape (d0 * d1) D0 D2 A = true -> site_qsparse (qflat qd0 qd1) qD0 qD2 A = true ->
    site_is_zero A = false ->
    fle F (f0 F) tol -> flt F tol (f1 F) -> distr <= 2 ->
    Forall (fun B => dsvd_ok F B (dsvd B)) (split_mps_calls A qd0 qd1 qD0 qD2) ->
    let S := block_svd_spectrum F dsvd (split_arg_M A qd0 qd1) (split_arg_q0 qd0 qD0) (split_arg_q1 qd1 qD2) in
    pick_ok F (normsq S) (pick (normsq S)) ->
    let K := retained pick S tol in
    let sg := map (fun i => nth i S (f0 F)) K in
    let k := length K in
    (distr = 2 -> forall x, In x sg -> fmul F (ksqrt x) (ksqrt x) = x) ->
    exists A0 A1 qb,
      split_mps_tensor_full dsvd pick ksqrt A qd0 qd1 (qD0 :: qD2 :: rest) distr tol = Some (A0, A1, qb) /\
      length qb = k /\ 1 <= k /\ k <= Nat.min (d0 * D0) (d1 * D2) /\
      (forall x, In x sg -> flt F (f0 F) x) /\
      site_shape d0 D0 k A0 = true /\ site_shape d1 k D2 A1 = true /\
      site_qsparse qd0 qD0 qb A0 = true /\ site_qsparse qd1 qb qD2 A1 = true /\
      site_nrm2 A = emb (sqsum S) /\
      site_dist2 A (merge_mps_tensor_pair A0 A1) = emb (fsum (map (sqv F S) (discarded S K))) /\
      fle F (fsum (map (sqv F S) (discarded S K))) (fmul F tol (sqsum S)) /\
      (tol = f0 F -> merge_mps_tensor_pair A0 A1 = A) /\
      (distr = 1 -> liso D0 k A0 /\ gram_l A0 = idmx k) /\
      (distr = 0 -> riso k D2 A1 /\ gram_r A1 = idmx k) /\
      (distr = 2 -> gram_l A0 = diagmx sg /\ gram_r A1 = diagmx sg).
  Proof.
    intros d0 d1 D0 D2 Hpos HA HspA Hnz Ht0 Ht1 Hd Hcalls S Hpick K sg k Hsq.
    set (M := split_arg_M A qd0 qd1) in *. set (q0 := split_arg_q0 qd0 qD0) in *. set (q1 := split_arg_q1 qd1 qD2) in *.
    assert (Hd0 : 0 < d0) by nia. assert (Hd1 : 0 < d1) by nia.
    destruct (site_shape_sel _ _ _ _ _ 0 HA Hpos) as (_ & rA0 & cA0).
    assert (HokA : site_okP CF (qflat qd0 qd1) qD0 qD2 A).
    { apply site_okP_b. rewrite qflat_length. split; assumption. }
    assert (Hv : valid_in M q0 q1 = true) by (apply (split_input_valid CF A qd0 qd1 qD0 qD2 HokA Hpos)).
    assert (HnzM : is_zeromx M = false).
    { destruct (is_zeromx M) eqn:E; [|reflexivity].
      rewrite (site_zero_of_matrix d0 d1 D0 D2 A HA Hpos E) in Hnz. discriminate. }
    assert (HrM : nr M = d0 * D0) by (apply (nr_split_matrix CF d0 d1 D0 D2 A HA Hpos)).
    assert (HcM : nc M = d1 * D2) by (apply (nc_split_matrix CF d0 d1 D0 D2 A HA Hpos)).
    destruct (block_svd_spec_gen F dsvd pick M q0 q1 tol Hv HnzM Ht0 Ht1 Hcalls Hpick)
      as (Hnn & Hne & [[[u s] v] qb] & E & Hs & Hqne & wu & wv & ru & cu & rv & cv & Lq & Lmin & HUU & HVV & Hpos_s & Hu & Hv' & Hex & Herr).
    fold S in Hnn, Hne, Hs, Herr. fold K in Hs, Herr. fold sg in Hs. subst s.
    assert (Lsg : length sg = k) by (unfold sg; apply map_length).
    destruct (block_svd_ext F dsvd pick M q0 q1 tol Hv HnzM Hcalls) as (Hnorm & _). fold S in Hnorm.
    assert (HA' : site_shape (length qd0 * length qd1) (nr (sel A 0)) (nc (sel A 0)) A = true) by (rewrite rA0, cA0; exact HA).
    pose proof (full_unfold F dsvd pick ksqrt A qd0 qd1 qD0 qD2 rest distr tol u sg v qb HA' E Hd) as Hfull.
    rewrite rA0, cA0, Lsg in Hfull. fold d0 d1 in Hfull.
    change (fun r i => get u r i *! wleft ksqrt distr sg i) with (pL distr u sg) in Hfull.
    change (fun i c => wright ksqrt distr sg i *! get v i c) with (qR distr v sg) in Hfull.
    set (A0 := lsite d0 D0 k (pL distr u sg)) in *. set (A1 := rsite d1 D2 k (qR distr v sg)) in *.
    exists A0, A1, qb. split; [exact Hfull|].
    (* the square-root hypothesis, by index *)
    assert (Hsq' : distr = 2 -> forall l, l < length sg ->
              fmul F (ksqrt (nth l sg (f0 F))) (ksqrt (nth l sg (f0 F))) = nth l sg (f0 F)).
    { intros E2 l Hl. apply (Hsq E2). apply nth_In. exact Hl. }
    (* entries of the product of the two distributed factors *)
    assert (Hprod : forall i j, i < d0 * D0 -> j < d1 * D2 ->
              sumn k (fun l => pL distr u sg i l *! qR distr v sg l j) = get (mulmx (scalecols F u sg) v) i j).
    { intros i j Hi Hj. rewrite <- Lsg. apply pq_usv; try assumption; lia. }
    (* shapes and sparsity through the model of Model/MPSOps.v *)
    assert (Hans : svd_ans_ok CF M q0 q1 (svd_of_block dsvd pick tol M q0 q1)).
    { unfold svd_of_block. rewrite E. unfold svd_ans_ok. rewrite map_length. repeat split; assumption. }
    pose proof (split_ok CF (svd_of_block dsvd pick tol) (csqrt ksqrt) A qd0 qd1 qD0 qD2 distr HA Hpos Hans) as Hok.
    rewrite <- (full_agrees F dsvd pick ksqrt A qd0 qd1 qD0 qD2 rest distr tol _ Hfull) in Hok.
    destruct Hok as [Hok0 Hok1]. apply site_okP_b in Hok0. apply site_okP_b in Hok1.
    assert (Lq' : length qb = k) by lia. rewrite Lq' in Hok0, Hok1.
    destruct Hok0 as [Sh0 Sp0]. destruct Hok1 as [Sh1 Sp1].
    split; [exact Lq'|].
    assert (Hk1 : 1 <= k).
    { destruct qb as [|x qb']; [contradiction Hqne; reflexivity|]. simpl in Lq'. lia. }
    split; [exact Hk1|]. split; [rewrite <- HrM, <- HcM; lia|].
    split; [exact Hpos_s|].
    split; [exact Sh0|]. split; [exact Sh1|]. split; [exact Sp0|]. split; [exact Sp1|].
    (* norm *)
    split. { rewrite (nrm2_matrix d0 d1 D0 D2 A HA Hpos). exact Hnorm. }
    (* error identity *)
    split.
    { unfold A0, A1. rewrite (dist2_matrix d0 d1 D0 D2 k _ _ A HA Hpos). rewrite <- Herr.
      unfold frob. unfold submx at 1 2. rewrite nr_tab, nc_tab, HrM, HcM.
      apply sumn_ext. intros i Hi. apply sumn_ext. intros j Hj.
      unfold submx. rewrite HrM, HcM. rewrite !get_tab by assumption.
      rewrite (Hprod i j Hi Hj). reflexivity. }
    (* bound *)
    split.
    { destruct (retained_spec F pick S tol Hnn Hne Ht0 Ht1 Hpick) as (_ & _ & _ & RS4 & _).
      assert (Hw : sqsum S <> f0 F).
      { intros E0. destruct Hne as (x & Hx & Hxn). apply Hxn. apply (sqsum_zero_all F S E0). exact Hx. }
      rewrite <- (disc_weight_mul F S K Hw). apply fle_mul_nonneg_compat; [apply sqsum_nonneg|exact RS4]. }
    (* tol = 0 *)
    split.
    { intros Ht. unfold A0, A1. apply (merge_lr_exact CF d0 d1 D0 D2 k _ _ A HA Hpos).
      intros i j Hi Hj. rewrite (Hprod i j Hi Hj). rewrite (Hex Ht). reflexivity. }
    (* Gram sums *)
    assert (GL : forall i j, i < k -> j < k ->
              sumn (d0 * D0) (fun r => cj (pL distr u sg r i) *! pL distr u sg r j)
              = cj (wleft ksqrt distr sg i) *! wleft ksqrt distr sg j *! delta CF i j).
    { intros i j Hi Hj. apply gram_pL; try assumption; try lia; try congruence. }
    assert (GR : forall i j, i < k -> j < k ->
              sumn (d1 * D2) (fun c => qR distr v sg i c *! cj (qR distr v sg j c))
              = wright ksqrt distr sg i *! cj (wright ksqrt distr sg j) *! delta CF i j).
    { intros i j Hi Hj. apply gram_qR; try assumption; try lia; try congruence. }
    split; [|split].
    - intros E1. subst distr. split.
      + intros i j Hi Hj. unfold A0. replace (length (lsite d0 D0 k (pL 1 u sg))) with d0 by (symmetry; apply length_lsite).
        transitivity (sumn (d0 * D0) (fun r => cj (pL 1 u sg r i) *! pL 1 u sg r j)).
        { rewrite <- (lsite_gram CF d0 D0 k (pL 1 u sg) i j Hi Hj). rewrite length_lsite. reflexivity. }
        rewrite (GL i j Hi Hj). unfold wleft. rewrite kconj_1. ring.
      + unfold A0. rewrite (gram_l_lsite d0 D0 k _ Hd0). unfold idmx. apply tab_ext. intros i j Hi Hj.
        rewrite (GL i j Hi Hj). unfold wleft, delta. rewrite kconj_1. destruct (Nat.eqb i j); ring.
    - intros E1. subst distr. split.
      + intros i j Hi Hj. unfold A1. replace (length (rsite d1 D2 k (qR 0 v sg))) with d1 by (symmetry; apply length_rsite).
        transitivity (sumn (d1 * D2) (fun c => qR 0 v sg i c *! cj (qR 0 v sg j c))).
        { rewrite <- (rsite_gram CF d1 D2 k (qR 0 v sg) i j Hi Hj). rewrite length_rsite. reflexivity. }
        rewrite (GR i j Hi Hj). unfold wright. rewrite kconj_1. ring.
      + unfold A1. rewrite (gram_r_rsite d1 D2 k _ Hd1). unfold idmx. apply tab_ext. intros i j Hi Hj.
        rewrite (GR i j Hi Hj). unfold wright, delta. rewrite kconj_1. destruct (Nat.eqb i j); ring.
    - intros E2. subst distr. split.
      + unfold A0. rewrite (gram_l_lsite d0 D0 k _ Hd0). unfold diagmx. rewrite Lsg. apply tab_ext. intros i j Hi Hj.
        rewrite (GL i j Hi Hj). unfold wleft, delta. destruct (Nat.eqb i j) eqn:Eij.
        * apply Nat.eqb_eq in Eij. subst j. rewrite (conj_cof F), (cof_mul F).
          rewrite (Hsq' eq_refl i) by (rewrite Lsg; exact Hi). ring.
        * ring.
      + unfold A1. rewrite (gram_r_rsite d1 D2 k _ Hd1). unfold diagmx. rewrite Lsg. apply tab_ext. intros i j Hi Hj.
        rewrite (GR i j Hi Hj). unfold wright, delta. destruct (Nat.eqb i j) eqn:Eij.
        * apply Nat.eqb_eq in Eij. subst j. rewrite (conj_cof F), (cof_mul F).
          rewrite (Hsq' eq_refl i) by (rewrite Lsg; exact Hi). ring.
        * ring.
  Qed.
End Spec.
