(* C07 (b), all L -- part 2: the letter-level case analysis.
   [hop_word_nth] / [int_word_nth]: at every site p the letter of the chain the code enumerates for (i, j) resp. for
   i < j, k < l (thirteen relative orders, five shapes) is the letter of the sitewise Jordan-Wigner product
   a+_i a_j resp. a+_i a+_j a_l a_k; [F2_sign] / [F4_sign]: the letter signs of the four orderings
   (i,j | j,i) x (k,l | l,k): a minus sign at site j iff the creators are in increasing order, at site l iff the
   annihilators are ([F4] multiplies a_l before a_k); [F4_diag*]: a repeated creator or annihilator gives 0. *)
From Coq Require Import ZArith List Lia Bool Arith.
From PT Require Import Base.Scalar Base.BigSum Model.OpGraph Model.FromOpchains Model.Molecular Model.MolFormula
                       Proofs.MolOpt Proofs.MolAllL1.
Import ListNotations.
Open Scope nat_scope.

Ltac res_cmp :=
  repeat match goal with
         | |- context [Nat.eqb ?x ?y] => destruct (Nat.eqb_spec x y); try lia
         | |- context [Nat.ltb ?x ?y] => destruct (Nat.ltb_spec x y); try lia
         end.

(* run-length words with absolute positions *)
Fixpoint expand (runs : list (Z * nat)) : list Z :=
  match runs with [] => [] | (x, len) :: r => repeat x len ++ expand r end.
Fixpoint rnth (runs : list (Z * nat)) (s p : nat) : Z :=
  match runs with [] => 0%Z | (x, len) :: r => if p <? s + len then x else rnth r (s + len) p end.
Lemma nth_expand runs s p : s <= p -> nth (p - s) (expand runs) 0%Z = rnth runs s p.
Proof.
  revert s. induction runs as [|[x len] r IH]; intros s H; cbn [expand rnth].
  - destruct (p - s); reflexivity.
  - rewrite nth_rep_app. destruct (Nat.ltb_spec (p - s) len); destruct (Nat.ltb_spec p (s + len)); try lia; try reflexivity.
    rewrite <- IH by lia. f_equal. lia.
Qed.
Lemma nth_expand0 runs p : nth p (expand runs) 0%Z = rnth runs 0 p.
Proof. rewrite <- nth_expand by lia. f_equal. lia. Qed.

Ltac reify_list l :=
  lazymatch l with
  | repeat ?x ?len ++ ?t => let t' := reify_list t in constr:((x, len) :: t')
  | [] => constr:(@nil (Z * nat))
  end.
Ltac reify_runs :=
  match goal with |- nth _ ?l _ = _ => let r := reify_list l in change l with (expand r) end.

Lemma F2_sign i j p : F2 i j p = SOp false (sop_op (F2 i j p)).
Proof.
  unfold F2, jwl. destruct (Nat.compare_spec p i); destruct (Nat.compare_spec p j); reflexivity.
Qed.

Lemma F4_sign a b c d p (s1 s2 : bool) : a < b -> c < d ->
  F4 (if s1 then a else b) (if s1 then b else a) (if s2 then c else d) (if s2 then d else c) p
  = SOp (xorb (s1 && (p =? b)) (s2 && (p =? d))) (sop_op (F4 a b c d p)).
Proof.
  intros Hab Hcd. unfold F4, jwl. destruct s1, s2; cbn [andb].
  all: destruct (Nat.compare_spec p a); destruct (Nat.compare_spec p b); try lia;
       destruct (Nat.compare_spec p c); destruct (Nat.compare_spec p d); try lia; res_cmp; reflexivity.
Qed.

(* a+_i a+_i = 0 and a_k a_k = 0, at the site itself *)
Lemma F4_diag12 i k l : F4 i i k l i = SZero.
Proof.
  unfold F4, jwl. rewrite Nat.compare_refl.
  destruct (i ?= l), (i ?= k); reflexivity.
Qed.
Lemma F4_diag34 i j k : F4 i j k k k = SZero.
Proof.
  unfold F4, jwl. rewrite Nat.compare_refl.
  destruct (k ?= i), (k ?= j); reflexivity.
Qed.

Lemma hop_word_nth i j n p : i < n -> j < n -> p < n ->
  nth p (skel_word n (hop_skel i j)) 0%Z = op_id (sop_op (F2 i j p)).
Proof.
  intros Hi Hj Hp. remember (op_id (sop_op (F2 i j p))) as rhs eqn:Er.
  unfold skel_word, hop_skel, op_sort, fold_right, op_insert, op_leb, oA, oC.
  split_cmp.
  all: cbn [k_oids k_istart]; rewrite <- ?app_assoc; cbn [app]; len_runs.
  all: rewrite ?cons_rep; rewrite <- (app_nil_r (repeat 0%Z (n - _ - _))).
  all: reify_runs.
  all: rewrite nth_expand0; cbn [rnth]; subst rhs; unfold F2, jwl.
  all: destruct (Nat.compare_spec p i); destruct (Nat.compare_spec p j); try lia; res_cmp; reflexivity.
Qed.

Lemma int_word_nth a b c d n p : a < b < n -> c < d < n -> p < n ->
  nth p (skel_word n (int_skel a b c d)) 0%Z = op_id (sop_op (F4 a b c d p)).
Proof.
  intros Hab Hcd Hp. remember (op_id (sop_op (F4 a b c d p))) as rhs eqn:Er.
  unfold skel_word, int_skel, op_sort, fold_right, op_insert, op_leb, oA, oC.
  split_cmp.
  all: cbn [k_oids k_istart]; rewrite <- ?app_assoc; cbn [app]; len_runs.
  all: rewrite ?cons_rep; rewrite <- (app_nil_r (repeat 0%Z (n - _ - _))).
  all: reify_runs.
  all: rewrite nth_expand0; cbn [rnth]; subst rhs; unfold F4, jwl.
  all: destruct (Nat.compare_spec p a); destruct (Nat.compare_spec p b); try lia;
       destruct (Nat.compare_spec p c); destruct (Nat.compare_spec p d); try lia; res_cmp; reflexivity.
Qed.
