(* Concrete data for the round-2 non-vacuity examples of Properties/C02.v.
   (1) a charged product state over Q[i]: qd = [0; 1], L = 2, bond charges [0] [0] [1], amplitudes 3 (x) 4 on the word (0, 1);
       QR table (1 x 1 blocks), SVD table, argsort answer [0], abs = real part (the final T is 1): all contracts of
       MPS.compress hold on the issued calls, both modes.
   (2) a one-site TDVP run over Z[i] with the identity operator: the model returns and the single recorded call (one local
       Hamiltonian step, solver = identity) meets its contract. *)
From Coq Require Import ZArith QArith Qcanon List Bool Lia.
From PT Require Import Base.Scalar Base.Field Base.BigSum Base.Mx Model.Tensor Model.MPSOps Model.BondOps Model.Operation Model.Sweeps.
From PT Require Import Model.Orthonormalize.
Import ListNotations.

Definition qq2 (n : Z) (d : positive) : Qc := Q2Qc (Qmake n d).
Definition cq2 (n : Z) (d : positive) : Cx QcF := (qq2 n d, qq2 0 1).
Definition mc2 := @mkmx (Cx QcF).
Definition ex2_p : mps (Cx QcF) :=
  mkmps [0; 1]%Z [[0]; [0]; [1]]%Z
    [ [mc2 1 1 [[cq2 3 1]]; mc2 1 1 [[cq2 0 1]]]; [mc2 1 1 [[cq2 0 1]]; mc2 1 1 [[cq2 4 1]]] ].
Definition ex2_qtbl : list (mx (Cx QcF) * (mx (Cx QcF) * mx (Cx QcF))) :=
  [ (mc2 1 1 [[cq2 4 1]], (mc2 1 1 [[cq2 1 1]], mc2 1 1 [[cq2 4 1]]));
    (mc2 1 1 [[cq2 12 1]], (mc2 1 1 [[cq2 1 1]], mc2 1 1 [[cq2 12 1]]));
    (mc2 1 1 [[cq2 3 1]], (mc2 1 1 [[cq2 1 1]], mc2 1 1 [[cq2 3 1]])) ].
Definition ex2_stbl : list (mx (Cx QcF) * (mx (Cx QcF) * list QcF * mx (Cx QcF))) :=
  [ (mc2 1 1 [[cq2 1 1]], (mc2 1 1 [[cq2 1 1]], [qq2 1 1], mc2 1 1 [[cq2 1 1]])) ].
Definition ex2_pick : list QcF -> list nat := fun _ => [0%nat].
Definition ex2_abs : Cx QcF -> QcF := fun z => fst z.
Definition ex2_tol : QcF := qq2 1 10.
Definition ex2_word : list nat := [0%nat; 1%nat].
(* first and last bond charges equal *)
Definition zl_eq2 (a b : list Z) : bool := zl_eqb a b.
Definition boundary_eq2 (p q : mps (Cx QcF)) : bool :=
  zl_eq2 (hd [] (m_qD p)) (hd [] (m_qD q)) && zl_eq2 (last (m_qD p) []) (last (m_qD q) []).

(* (2) one-site TDVP over Z[i] *)
Definition gm2 := @mkmx GIring.
Definition ex2_H : mpo GIring := mpo_identity [0; 1]%Z 1 ((1, 0)%Z : GIring).
Definition ex2_psi : mps GIring := mkmps [0; 1]%Z [[0]; [1]]%Z [ [gm2 1 1 [[(0, 0)%Z]]; gm2 1 1 [[(5, 2)%Z]]] ].
Definition ex2_orth : mps GIring -> mps GIring * GIring := fun p => (p, (1, 0)%Z).
Definition ex2_qr : nat -> mx GIring -> list Z -> list Z -> mx GIring * mx GIring * list Z := fun _ M _ _ => (M, M, []).
Definition ex2_kexp : nat -> env GIring -> env GIring -> osite GIring -> site GIring -> GIring -> site GIring := fun _ _ _ _ A _ => A.
Definition ex2_kexp0 : nat -> env GIring -> env GIring -> mx GIring -> GIring -> mx GIring := fun _ _ _ C _ => C.
