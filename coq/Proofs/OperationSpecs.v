(* C04 — dense meaning of vdot, norm^2, operator_inner_product, operator_average,
   operator_density_average (all L >= 1, all dimensions and bond profiles). *)
From Coq Require Import Arith List Lia Ring Setoid Morphisms Bool.
From PT Require Import Base.Scalar Base.BigSum Base.Mx Model.Tensor Model.Operation
  Proofs.OperationSums Proofs.OperationEntries Proofs.OperationChains Proofs.OperationTransfer.
Import ListNotations.

Section Specs.
  Variable R : cring.
  Add Ring Rring_c04_specs : (k_rt R).
  Notation "0" := (k0 R). Notation "1" := (k1 R).
  Infix "+" := (kadd R). Infix "*" := (kmul R).
  Notation site := (site R).
  Notation osite := (osite R).
  Notation env := (env R).
  Notation mx := (mx R).
  Notation cj := (kconj R).

  Lemma chain_ok_length ds Ds (As : list site) : chain_ok ds Ds As -> length As = length ds.
  Proof.
    revert ds Ds. induction As as [|A As IH]; intros ds Ds H.
    - apply chain_ok_nil_inv in H. destruct H as [-> _]. reflexivity.
    - apply chain_ok_cons_inv in H. destruct H as (d & ds' & Dl & Dr & Ds' & -> & -> & _ & _ & H).
      simpl. f_equal. apply (IH _ _ H).
  Qed.
  Lemma ochain_ok_length ds Ds (Ws : list osite) : ochain_ok ds Ds Ws -> length Ws = length ds.
  Proof.
    revert ds Ds. induction Ws as [|A As IH]; intros ds Ds H.
    - apply ochain_ok_nil_inv in H. destruct H as [-> _]. reflexivity.
    - apply ochain_ok_cons_inv in H. destruct H as (d & ds' & Dl & Dr & Ds' & -> & -> & _ & _ & _ & H).
      simpl. f_equal. apply (IH _ _ H).
  Qed.

  Lemma chain_ok_last_dr (As : list site) : forall ds Ds A, chain_ok ds Ds (A :: As) -> last_dr (A :: As) = 1%nat.
  Proof.
    induction As as [|A' As IH]; intros ds Ds A H.
    - apply chain_ok_cons_inv in H. destruct H as (d & ds' & Dl & Dr & Ds' & -> & -> & Hd & HA & H).
      apply chain_ok_nil_inv in H. destruct H as [_ E]. injection E as -> ->.
      unfold last_dr. cbn [last]. destruct (site_ok_sdl _ _ _ _ _ Hd HA) as (_ & E & _). exact E.
    - apply chain_ok_cons_inv in H. destruct H as (d & ds' & Dl & Dr & Ds' & -> & -> & Hd & HA & H).
      unfold last_dr. change (last (A :: A' :: As) []) with (last (A' :: As) []). apply (IH _ _ _ H).
  Qed.

  Theorem vdot_sites_spec ds Das Dbs (As Bs : list site) :
    As <> [] -> chain_ok ds Das As -> chain_ok ds Dbs Bs -> hd 0%nat Das = 1%nat -> hd 0%nat Dbs = 1%nat ->
    vdot_sites Bs As = Some (suml (gwords ds) (fun w => cj (amp Bs w) * amp As w)).
  Proof.
    intros Hne HA HB H1 H2. unfold vdot_sites.
    rewrite (chain_ok_length _ _ _ HA), (chain_ok_length _ _ _ HB), Nat.eqb_refl. cbn [negb].
    destruct As as [|A As]; [congruence|].
    rewrite (chain_ok_last_dr _ _ _ _ HA).
    destruct (rfold0_shape R _ _ _ _ _ HA HB) as [S1 S2]. unfold is11. rewrite S1, S2, H1, H2. cbn [Nat.eqb andb].
    f_equal. rewrite (rfold0_spec R _ _ ds Das Dbs HA HB) by lia.
    apply suml_ext; intros w _. rewrite !amp_cvec. ring.
  Qed.

  Theorem operator_inner_product_sites_spec ds Das Dbs Dws (As Bs : list site) (Ws : list osite) :
    As <> [] -> chain_ok ds Das As -> chain_ok ds Dbs Bs -> ochain_ok ds Dws Ws ->
    hd 0%nat Das = 1%nat -> hd 0%nat Dbs = 1%nat -> hd 0%nat Dws = 1%nat ->
    operator_inner_product_sites Bs Ws As =
    Some (suml (gwords ds) (fun w => suml (gwords ds) (fun w' => cj (amp Bs w) * opamp Ws w w' * amp As w'))).
  Proof.
    intros Hne HA HB HW H1 H2 H3. unfold operator_inner_product_sites.
    rewrite (chain_ok_length _ _ _ HA), (chain_ok_length _ _ _ HB), (ochain_ok_length _ _ _ HW), Nat.eqb_refl.
    cbn [negb andb].
    destruct As as [|A As]; [congruence|].
    destruct Bs as [|B Bs]; [apply chain_ok_length in HA; apply chain_ok_length in HB; simpl in *; congruence|].
    rewrite (chain_ok_last_dr _ _ _ _ HA), (chain_ok_last_dr _ _ _ _ HB). cbn [Nat.eqb negb].
    pose proof (rfold_shape R _ _ _ _ _ _ _ HA HB HW) as HE. rewrite H1, H2, H3 in HE.
    destruct HE as [L1 L2]. destruct (L2 0%nat) as [S1 S2]; [lia|].
    unfold is111, is11. rewrite L1, S1, S2. cbn [Nat.eqb andb].
    f_equal. rewrite (rfold_spec R _ _ _ ds Das Dbs Dws HA HB HW) by lia.
    apply suml_ext; intros w _. apply suml_ext; intros w' _. rewrite !amp_cvec, opamp_ocvec. ring.
  Qed.

  Theorem operator_average_sites_spec ds Das Dws (As : list site) (Ws : list osite) :
    As <> [] -> chain_ok ds Das As -> ochain_ok ds Dws Ws -> hd 0%nat Das = 1%nat -> hd 0%nat Dws = 1%nat ->
    operator_average_sites As Ws =
    Some (suml (gwords ds) (fun w => suml (gwords ds) (fun w' => cj (amp As w) * opamp Ws w w' * amp As w'))).
  Proof.
    intros Hne HA HW H1 H3.
    rewrite <- (operator_inner_product_sites_spec ds Das Das Dws As As Ws) by assumption.
    unfold operator_average_sites, operator_inner_product_sites.
    rewrite (chain_ok_length _ _ _ HA), (ochain_ok_length _ _ _ HW), Nat.eqb_refl. cbn [negb andb].
    destruct As; [congruence|]. rewrite Nat.eqb_refl. reflexivity.
  Qed.

  Theorem operator_density_average_sites_spec ds Das Dws (Rs Ws : list osite) :
    Rs <> [] -> ochain_ok ds Das Rs -> ochain_ok ds Dws Ws -> hd 0%nat Das = 1%nat -> hd 0%nat Dws = 1%nat ->
    operator_density_average_sites Rs Ws =
    Some (suml (gwords ds) (fun w => suml (gwords ds) (fun w' => opamp Ws w w' * opamp Rs w' w))).
  Proof.
    intros Hne HA HW H1 H2. unfold operator_density_average_sites.
    rewrite (ochain_ok_length _ _ _ HA), (ochain_ok_length _ _ _ HW), Nat.eqb_refl. cbn [negb].
    destruct Rs as [|A As]; [congruence|].
    destruct (rfoldD_shape R _ _ _ _ _ HA HW) as [S1 S2]. unfold is11. rewrite S1, S2, H1, H2. cbn [Nat.eqb andb].
    f_equal. rewrite (rfoldD_spec R _ _ ds Das Dws HA HW) by lia.
    rewrite suml_exch. apply suml_ext; intros w _. apply suml_ext; intros w' _. rewrite !opamp_ocvec. ring.
  Qed.

  (* norm: the model returns dsqrt (re <psi|psi>); <psi|psi> is the sum of the squared moduli *)
  Theorem norm_spec ds Das (As : list site) re dsqrt qd qD :
    As <> [] -> chain_ok ds Das As -> hd 0%nat Das = 1%nat ->
    norm re dsqrt (mkmps qd qD As) = Some (dsqrt (re (suml (gwords ds) (fun w => cj (amp As w) * amp As w)))).
  Proof.
    intros Hne HA H1. unfold norm, vdot. cbn [m_A].
    rewrite (vdot_sites_spec ds Das Das As As) by assumption. reflexivity.
  Qed.
End Specs.
