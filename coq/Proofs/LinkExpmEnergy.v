(* Link 1 (C15 -> C08): the energy half of the conserving-solver contract for the Hermitian branch of expm_krylov.
   With x' = V U diag(phases) U^T (||v|| e_0):  <x'|A x'> = <v|A v>  for EVERY iteration count m >= 1 (early termination
   included), because V^H A V = T exactly (C14_lanczos_tridiag), T U = U diag(w), U^T U = I, (U U^T) e_0 = e_0 and
   |phase_l| = 1.  No invariance of the Krylov space is used; A has to be linear (Rayleigh quotient of a combination). *)
From Coq Require Import ZArith List Bool Arith Lia Ring Field.
From PT Require Import Base.Scalar Base.Field Base.BigSum Base.Mx Model.Krylov Proofs.KrylovVec Proofs.KrylovLanczos
  Proofs.KrylovArnoldi Proofs.KrylovMatvec Proofs.KrylovExpm Proofs.KrylovRitz.
Import ListNotations.

Section ExpmEnergy.
  Variable F : ofield.
  Notation K := (Cx F).
  Add Field Ffield_lee : (f_ft F).
  Add Ring Kring_lee : (k_rt (Cx F)).
  Notation vec := (list K).
  Notation "0" := (k0 K). Notation "1" := (k1 K).
  Infix "+" := (kadd K). Infix "*" := (kmul K).
  Notation conj := (kconj K).
  Variable n : nat.
  Notation vat := (vat F).
  Notation orthonormal := (orthonormal F n).
  Notation delta := (delta F).
  Notation uent U i j := (nth j (nth i U []) (f0 F)).

  (* additional clause of the eigh_tridiagonal contract: (U U^T) e_0 = e_0 (row 0 of U U^T is the unit vector) *)
  Definition eigh_row0 (k : nat) (wU : list F * list (list F)) : Prop :=
    let '(w, U) := wU in
    forall j, j < k -> sumn k (fun q => cof (uent U j q) * cof (uent U 0 q)) = delta j 0.

  (* sum_i conj((U a)_i) (U b)_i = sum_l conj(a_l) b_l  for U^T U = I, U real *)
  Lemma orth_bilinear k (U : list (list F)) (a b : nat -> K) :
    (forall p q, p < k -> q < k -> sumn k (fun i => cof (uent U i p) * cof (uent U i q)) = delta p q) ->
    sumn k (fun i => conj (sumn k (fun l => cof (uent U i l) * a l)) * sumn k (fun p => cof (uent U i p) * b p)) =
    sumn k (fun l => conj (a l) * b l).
  Proof.
    intros Hcols.
    transitivity (sumn k (fun l => sumn k (fun p => (conj (a l) * b p) * sumn k (fun i => cof (uent U i l) * cof (uent U i p))))).
    { transitivity (sumn k (fun i => sumn k (fun l => sumn k (fun p => (conj (a l) * b p) * (cof (uent U i l) * cof (uent U i p)))))).
      - apply (sumn_ext (Cx F)). intros i Hi. rewrite sumn_conj.
        rewrite <- sumn_scal_r. apply (sumn_ext (Cx F)). intros l Hl. rewrite <- sumn_scal_l. apply (sumn_ext (Cx F)). intros p Hp.
        rewrite kconj_mul, conj_cof. ring.
      - rewrite sumn_exch. apply (sumn_ext (Cx F)). intros l Hl. rewrite sumn_exch. apply (sumn_ext (Cx F)). intros p Hp.
        rewrite sumn_scal_l. reflexivity. }
    apply (sumn_ext (Cx F)). intros l Hl.
    transitivity (sumn k (fun p => (conj (a l) * b p) * (if Nat.eqb p l then 1 else 0))).
    - apply (sumn_ext (Cx F)). intros p Hp. rewrite Hcols by assumption. unfold KrylovLanczos.delta. rewrite (Nat.eqb_sym l p). reflexivity.
    - apply (sumn_delta_r (Cx F) k l (fun p => conj (a l) * b p)). exact Hl.
  Qed.

  (* alpha_0 = T_00 = sum_q U_0q^2 w_q *)
  Lemma alpha0_spectral k al be w U : 0 < k -> eigh_ok F k al be (w, U) -> eigh_row0 k (w, U) ->
    @sumn (Cx F) k (fun l => cof (fmul F (fmul F (uent U 0 l) (uent U 0 l)) (nth l w (f0 F)))) = cof (fat F al 0).
  Proof.
    intros Hk (Hw & HU & Hrow & Hcols & HT) Hrow0. symmetry.
    change (cof (fat F al 0)) with (tri F al be 0 0).
    transitivity (sumn k (fun j => tri F al be 0 j * delta j 0)).
    - symmetry. transitivity (sumn k (fun j => tri F al be 0 j * (if Nat.eqb j 0 then 1 else 0))).
      + apply (sumn_ext (Cx F)). intros j Hj. reflexivity.
      + apply (sumn_delta_r (Cx F) k 0 (fun j => tri F al be 0 j)). exact Hk.
    - transitivity (sumn k (fun j => sumn k (fun q => (tri F al be 0 j * cof (uent U j q)) * cof (uent U 0 q)))).
      + apply (sumn_ext (Cx F)). intros j Hj. rewrite <- (Hrow0 j Hj), <- sumn_scal_l.
        apply (sumn_ext (Cx F)). intros q Hq. ring.
      + rewrite sumn_exch. apply (sumn_ext (Cx F)). intros q Hq. rewrite sumn_scal_r, (HT 0%nat q Hk Hq), <- !cof_mul.
        apply (f_equal (@cof F)). ring.
  Qed.

  (* the clause is the second half of [eigh_sorted] (C15_ritz_upper_bound's contract) *)
  Lemma eigh_sorted_row0 k wU : eigh_sorted F k wU -> eigh_row0 k wU.
  Proof. destruct wU as [w U]. intros [_ H]. exact H. Qed.

  Variable dexp : K -> K.
  Variable Afunc : vec -> vec.
  Hypothesis A_len : maps_len F n Afunc.
  Hypothesis A_lin : linear F n Afunc.

  (* <x'|A x'> = ||v||^2 alpha_0 *)
  Lemma expm_h_energy (al be : list F) (Vs : list vec) w U nrm dt k :
    orthonormal Vs -> length Vs = k -> 0 < k ->
    (forall i j, i < k -> j < k -> vdot (vat Vs i) (Afunc (vat Vs j)) = tri F al be i j) ->
    eigh_ok F k al be (w, U) -> eigh_row0 k (w, U) ->
    (forall l, l < k -> cnorm2 (dexp (dt * cof (nth l w (f0 F)))) = f1 F) ->
    vdot (lincomb n (expm_coeffs_h F dexp nrm dt w U) Vs) (Afunc (lincomb n (expm_coeffs_h F dexp nrm dt w U) Vs)) =
    cof (fmul F (fmul F nrm nrm) (fat F al 0)).
  Proof.
    intros Ho HV Hk Htri HE Hrow0 Hph. pose proof HE as (Hw & HU & Hrow & Hcols & HT).
    set (y := zipw (fun wk u0k => (cof nrm * dexp (dt * cof wk)) * cof u0k) w (nth 0 U [])).
    assert (Ly : length y = k). { unfold y. rewrite length_zipw; [exact Hw|]. rewrite Hw, Hrow by lia. reflexivity. }
    assert (Hy : forall l, l < k -> nth l y 0 = (cof nrm * dexp (dt * cof (nth l w (f0 F)))) * cof (uent U 0 l)).
    { intros l Hl. unfold y. rewrite (nth_zipw _ _ _ (f0 F) (f0 F)); [reflexivity|lia|rewrite Hrow; lia]. }
    assert (Lc : length (expm_coeffs_h F dexp nrm dt w U) = k). { unfold expm_coeffs_h. rewrite map_length. exact HU. }
    assert (Hc : forall i, i < k -> nth i (expm_coeffs_h F dexp nrm dt w U) 0 = sumn k (fun l => cof (uent U i l) * nth l y 0)).
    { intros i Hi. unfold expm_coeffs_h. fold y.
      change 0 with ((fun row : list F => dotu (map cof row) y) []) at 1. rewrite map_nth.
      rewrite (dotu_sumn F k) by (try exact Ly; rewrite map_length; apply Hrow; exact Hi).
      apply (sumn_ext (Cx F)). intros l Hl. f_equal. apply (nth_map_cof F). }
    set (cs := expm_coeffs_h F dexp nrm dt w U) in *.
    assert (LV : forall v, In v Vs -> length v = n) by (apply (orth_all F n); exact Ho).
    rewrite (Afunc_lincomb F n Afunc A_lin) by exact LV.
    rewrite (vdot_lincomb2 F n Vs (map Afunc Vs) cs cs k); try assumption; try (rewrite map_length; exact HV).
    2:{ intros u Hu. apply in_map_iff in Hu. destruct Hu as (x & <- & Hx). apply A_len. apply LV. exact Hx. }
    (* sum_j c_j T_ij = sum_p U_ip w_p y_p *)
    transitivity (sumn k (fun i => conj (sumn k (fun l => cof (uent U i l) * nth l y 0)) *
                               sumn k (fun p => cof (uent U i p) * (cof (nth p w (f0 F)) * nth p y 0)))).
    { apply (sumn_ext (Cx F)). intros i Hi. rewrite <- (Hc i Hi).
      transitivity (sumn k (fun j => conj (nth i cs 0) * sumn k (fun p => (tri F al be i j * cof (uent U j p)) * nth p y 0))).
      - apply (sumn_ext (Cx F)). intros j Hj.
        rewrite (nth_indep (map Afunc Vs) [] (Afunc [])) by (rewrite map_length; lia). rewrite map_nth.
        fold (vat Vs i). fold (vat Vs j). rewrite (Htri i j Hi Hj).
        transitivity (conj (nth i cs 0) * (tri F al be i j * nth j cs 0)); [ring|]. f_equal.
        rewrite (Hc j Hj), <- sumn_scal_l. apply (sumn_ext (Cx F)). intros p Hp. ring.
      - rewrite sumn_scal_l. f_equal. rewrite sumn_exch. apply (sumn_ext (Cx F)). intros p Hp.
        rewrite sumn_scal_r, (HT i p Hi Hp), cof_mul. ring. }
    rewrite (orth_bilinear k U (fun l => nth l y 0) (fun p => cof (nth p w (f0 F)) * nth p y 0) Hcols).
    transitivity (@sumn (Cx F) k (fun l => cof (fmul F nrm nrm) * cof (fmul F (fmul F (uent U 0 l) (uent U 0 l)) (nth l w (f0 F))))).
    { apply (sumn_ext (Cx F)). intros l Hl.
      transitivity (cof (nth l w (f0 F)) * (conj (nth l y 0) * nth l y 0)); [ring|].
      rewrite conj_mul_self, Hy by exact Hl. rewrite !cnorm2_mul, !cnorm2_cof, Hph by exact Hl. rewrite <- !cof_mul.
      apply (f_equal (@cof F)). ring. }
    rewrite sumn_scal_l, (alpha0_spectral k al be w U Hk HE Hrow0), <- cof_mul. reflexivity.
  Qed.

  Variable dnorm : vec -> F.
  Variable small : F -> bool.
  Variable deigh : list F -> list F -> list F * list (list F).
  Variable dexpm : list (list K) -> list (list K).
  Hypothesis A_sa : self_adjoint F n Afunc.
  Hypothesis small_pos : small_sound F small.

  (* the oracle contracts, required only for the calls the model issues on this input:
     eigh_tridiagonal returns (w, U) with U real k x k, U^T U = I, T U = U diag(w), (U U^T) e_0 = e_0;
     numpy.exp returns unimodular numbers at the arguments dt * w_l *)
  Definition expm_h_energy_oracles_ok (v : vec) (dt : K) (m : nat) : Prop :=
    forall al be (Vs : list vec) wn, lanczos F Afunc dnorm small v m = Some (al, be, Vs, wn) ->
      eigh_ok F (length Vs) al be (deigh al be) /\ eigh_row0 (length Vs) (deigh al be) /\
      (forall l, l < length Vs -> cnorm2 (dexp (dt * cof (nth l (fst (deigh al be)) (f0 F)))) = f1 F).

  Lemma eigh_ok_row0_orth k al be wU : 0 < k -> eigh_ok F k al be wU -> eigh_row0 k wU -> eigh_orth F k wU.
  Proof.
    destruct wU as [w U]. intros Hk (Hw & HU & Hrow & Hcols & HT) Hrow0.
    split; [exact Hw|]. split; [exact HU|]. split; [exact Hrow|]. split; [exact Hcols|].
    rewrite (Hrow0 0%nat Hk). apply (delta_refl F).
  Qed.

  (* <v|A v> = alpha_0 ||v||^2 *)
  Lemma start_rayleigh m al be (Vs : list vec) wn (v : vec) :
    lanczos_post F n Afunc m (al, be, Vs, wn) -> vat Vs 0 = vdivr v (dnorm v) -> length v = n ->
    norm_ok F (v, dnorm v) -> dnorm v <> f0 F ->
    vdot v (Afunc v) = cof (fmul F (fmul F (dnorm v) (dnorm v)) (fat F al 0)).
  Proof.
    intros HP H0 Hv [Hc1 Hc2] Hne. cbn [fst snd] in Hc1, Hc2.
    pose proof (lanczos_tridiag F n Afunc A_sa m al be Vs wn HP) as Htri.
    destruct HP as (H1 & _).
    pose proof (Htri 0%nat 0%nat ltac:(lia) ltac:(lia)) as Ht. rewrite H0 in Ht.
    destruct A_lin as (_ & Hsc & _).
    rewrite vdivr_rscale in Ht. unfold rscale in Ht. rewrite Hsc in Ht by exact Hv.
    rewrite vdot_cscale_l, vdot_cscale_r, conj_cof in Ht. change (tri F al be 0 0) with (cof (fat F al 0)) in Ht.
    rewrite cof_mul, <- Ht, cof_mul.
    transitivity ((cof (dnorm v) * cof (finv F (dnorm v))) * (cof (dnorm v) * cof (finv F (dnorm v))) * vdot v (Afunc v)); [|ring].
    rewrite <- cof_mul. replace (fmul F (dnorm v) (finv F (dnorm v))) with (f1 F) by (field; exact Hne).
    change (cof (f1 F)) with 1. ring.
  Qed.

  (* Hermitian branch of expm_krylov, every m >= 1: norm AND energy of the start vector are preserved *)
  Theorem expm_hermitian_energy (v : vec) (dt : K) (m : nat) : length v = n -> v <> vzero n -> 1 <= m ->
    Forall (norm_ok F) (lanczos_calls F Afunc dnorm small v m) -> expm_h_energy_oracles_ok v dt m ->
    exists x, expm_krylov F Afunc dnorm small deigh dexp dexpm v dt m true = Some x /\
              length x = n /\ nrm2 x = nrm2 v /\ vdot x (Afunc x) = vdot v (Afunc v).
  Proof.
    intros Hv Hnz Hm HC HO.
    destruct (lanczos_spec F n Afunc dnorm small A_len A_sa small_pos v m Hv Hnz Hm HC) as (r & Hr & HP & H0).
    destruct r as [[[al be] Vs] wn]. destruct (HO al be Vs wn Hr) as (HE & HR0 & Hph). cbn [fst snd] in H0.
    unfold expm_krylov, expm_krylov_h. rewrite Hr. destruct (deigh al be) as [w U] eqn:ED. cbn [fst] in Hph.
    pose proof (lanczos_tridiag F n Afunc A_sa m al be Vs wn HP) as Htri.
    pose proof HP as (H1 & _ & _ & _ & _ & Ho & _).
    assert (Hc : norm_ok F (v, dnorm v)) by (unfold lanczos_calls in HC; inversion HC; assumption).
    assert (Hne : dnorm v <> f0 F).
    { intros E. destruct Hc as [_ Hc2]. cbn [fst snd] in Hc2. rewrite E in Hc2. apply Hnz. rewrite <- Hv. apply nrm2_zero. rewrite <- Hc2. ring. }
    assert (Hk : 0 < length Vs) by exact H1.
    eexists. split; [reflexivity|]. rewrite Hv. split; [|split].
    - apply length_lincomb. apply (orth_all F n). exact Ho.
    - rewrite (expm_h_norm F n dexp Vs w U (dnorm v) dt (length Vs)); auto.
      + apply Hc.
      + apply (eigh_ok_row0_orth (length Vs) al be); auto.
    - rewrite (expm_h_energy al be Vs w U (dnorm v) dt (length Vs) Ho eq_refl Hk Htri HE HR0 Hph).
      symmetry. apply (start_rayleigh m al be Vs wn v HP H0 Hv Hc Hne).
  Qed.
End ExpmEnergy.
