(* Proofs about Model/AutOp.v, part 2: for a consistent automaton the layer recurrence of part 1
   (Proofs/C17AutOp.v) is the sum over all automaton paths; dead states contribute nothing. *)
From Coq Require Import ZArith List Lia Bool Permutation Ring.
From PT Require Import Base.Scalar Base.BigSum Model.OpGraph Model.C17Common Model.AutOp Proofs.C17GraphSem Proofs.C17AutOp.
Import ListNotations.
Open Scope Z_scope.

Section AutPath.
  Variable R : cring.
  Add Ring Rring_c17autp : (k_rt R).
  Notation "0r" := (k0 R). Notation "1r" := (k1 R).
  Infix "+r" := (kadd R) (at level 50, left associativity).
  Infix "*r" := (kmul R) (at level 40, left associativity).
  Notation autop := (autop R).
  Notation aedge := (aedge R).
  Variable aut : autop.

  (* forward sum with a free end node b, backward sum with a free start node a0 *)
  Fixpoint adf (b : Z) (i : nat) (w : list Z) (a : Z) : R :=
    match w with
    | [] => if a =? b then 1r else 0r
    | o :: w' => suml (a_edges aut) (fun e =>
                   if (ae_from e =? a) && ae_active e i
                   then opics_coeff o (ae_opics e i) *r adf b (S i) w' (ae_to e) else 0r)
    end.
  Fixpoint apre (a0 : Z) (wr : list Z) (x : Z) : R :=
    match wr with
    | [] => if x =? a0 then 1r else 0r
    | o :: w' => suml (a_edges aut) (fun e =>
                   if (ae_to e =? x) && ae_active e (length w')
                   then apre a0 w' (ae_from e) *r opics_coeff o (ae_opics e (length w')) else 0r)
    end.

  Lemma aut_den_from_adf i w a : aut_den_from aut i w a = adf (a_t1 aut) i w a.
  Proof.
    revert i a; induction w as [|o w IH]; intros i a; simpl; [reflexivity|].
    apply suml_ext. intros e _. rewrite IH. reflexivity.
  Qed.

  Lemma adf_snoc b w o : forall i a,
    adf b i (w ++ [o]) a =
    suml (a_edges aut) (fun e => if (ae_to e =? b) && ae_active e (i + length w)
                                 then adf (ae_from e) i w a *r opics_coeff o (ae_opics e (i + length w)) else 0r).
  Proof.
    induction w as [|o' w IH]; intros i a; simpl.
    - apply suml_ext. intros e _. rewrite Nat.add_0_r. rewrite (Z.eqb_sym a (ae_from e)).
      destruct (ae_from e =? a), (ae_to e =? b), (ae_active e i); simpl. all: try ring.
    - replace (i + S (length w))%nat with (S i + length w)%nat by lia.
      transitivity (suml (a_edges aut) (fun e => suml (a_edges aut) (fun e' =>
         if ((ae_from e =? a) && ae_active e i) && ((ae_to e' =? b) && ae_active e' (S i + length w))
         then opics_coeff o' (ae_opics e i) *r adf (ae_from e') (S i) w (ae_to e) *r opics_coeff o (ae_opics e' (S i + length w)) else 0r))).
      { apply suml_ext. intros e _. destruct ((ae_from e =? a) && ae_active e i); cbv iota.
        - rewrite IH, <- suml_scal_l. apply suml_ext. intros e' _.
          destruct ((ae_to e' =? b) && ae_active e' (S i + length w)); cbn [andb]; ring.
        - symmetry. apply suml_zero. auto. }
      rewrite suml_exch. apply suml_ext. intros e' _.
      destruct ((ae_to e' =? b) && ae_active e' (S i + length w)).
      + rewrite <- suml_scal_r. apply suml_ext. intros e _.
        destruct ((ae_from e =? a) && ae_active e i); cbn [andb]; ring.
      + apply suml_zero. intros e _. rewrite andb_false_r. reflexivity.
  Qed.

  Lemma adf_apre a w : forall b, adf b 0 w a = apre a (rev w) b.
  Proof.
    induction w as [|o w IH] using rev_ind; intros b.
    - simpl. rewrite Z.eqb_sym. reflexivity.
    - rewrite rev_app_distr. simpl. rewrite adf_snoc. rewrite rev_length. simpl.
      apply suml_ext. intros e _. rewrite IH. reflexivity.
  Qed.

  Lemma aut_den_apre L w :
    aut_den aut L w = if Nat.eqb (length w) L then apre (a_t0 aut) (rev w) (a_t1 aut) else 0r.
  Proof. unfold aut_den. destruct (Nat.eqb (length w) L); [|reflexivity]. rewrite aut_den_from_adf. apply adf_apre. Qed.
End AutPath.

Arguments apre {R} _ _ _ _. Arguments adf {R} _ _ _ _ _.

Lemma zmem_in x l : zmem x l = true <-> In x l.
Proof.
  unfold zmem. rewrite existsb_exists. split.
  - intros [y [H1 H2]]. apply Z.eqb_eq in H2. subst. exact H1.
  - intros H. exists x. split; [exact H|apply Z.eqb_refl].
Qed.
Lemma nodupz_NoDup l : nodupz l = true -> NoDup l.
Proof.
  induction l as [|x t IH]; simpl; intros H; [constructor|].
  apply andb_true_iff in H. destruct H as [H1 H2]. constructor; [|auto].
  intros Hin. apply zmem_in in Hin. rewrite Hin in H1. discriminate.
Qed.
Lemma zset_add_in x s y : In y (zset_add x s) <-> y = x \/ In y s.
Proof.
  induction s as [|z t IH]; simpl; [intuition|].
  destruct (x <? z); simpl; [intuition|].
  destruct (Z.eqb_spec x z) as [->|Hne]; simpl; [intuition|]. rewrite IH. intuition.
Qed.

Section AutPrune.
  Variable R : cring.
  Add Ring Rring_c17autq : (k_rt R).
  Notation "0r" := (k0 R). Notation "1r" := (k1 R).
  Infix "*r" := (kmul R) (at level 40, left associativity).
  Notation aedge := (aedge R).
  Variable aut : autop R.

  (* ---- reachability steps are sound ---- *)
  Lemma fold_step_edge_err dir i l e : fold_left (step_edge R aut dir i) l (Err e) = Err e.
  Proof. induction l; simpl; auto. Qed.
  Lemma fold_step_edge_sound dir i : forall eids s s',
    fold_left (step_edge R aut dir i) eids (Ok s) = Ok s' ->
    (forall y, In y s -> In y s') /\
    (forall eid e, In eid eids -> afind_edge aut eid = Some e -> ae_active e i = true -> In (ae_nid e dir) s').
  Proof.
    induction eids as [|eid t IH]; intros s s' H.
    - simpl in H. inversion H; subst. split; auto. intros ? ? [].
    - change (fold_left (step_edge R aut dir i) t (step_edge R aut dir i (Ok s) eid) = Ok s') in H.
      unfold step_edge at 2 in H. simpl in H.
      destruct (afind_edge aut eid) as [e|] eqn:He; [|rewrite fold_step_edge_err in H; discriminate].
      destruct (IH _ _ H) as [H1 H2]. split.
      + intros y Hy. apply H1. destruct (ae_active e i); [apply zset_add_in; right|]; exact Hy.
      + intros eid0 e0 [<-|Hin] Hf Hact.
        * rewrite He in Hf. inversion Hf; subst e0. apply H1. rewrite Hact. apply zset_add_in. left; reflexivity.
        * eapply H2; eauto.
  Qed.
  Lemma fold_step_node_err dir i l e : fold_left (step_node R aut dir i) l (Err e) = Err e.
  Proof. induction l; simpl; auto. Qed.
  Lemma fold_step_node_sound dir i : forall prev s s',
    fold_left (step_node R aut dir i) prev (Ok s) = Ok s' ->
    (forall y, In y s -> In y s') /\
    (forall nid n eid e, In nid prev -> afind_node aut nid = Some n -> In eid (node_eids n dir) ->
       afind_edge aut eid = Some e -> ae_active e i = true -> In (ae_nid e dir) s').
  Proof.
    induction prev as [|nid t IH]; intros s s' H.
    - simpl in H. inversion H; subst. split; auto. intros ? ? ? ? [].
    - change (fold_left (step_node R aut dir i) t (step_node R aut dir i (Ok s) nid) = Ok s') in H.
      unfold step_node at 2 in H. simpl in H.
      destruct (afind_node aut nid) as [n|] eqn:Hn; [|rewrite fold_step_node_err in H; discriminate].
      destruct (fold_left (step_edge R aut dir i) (node_eids n dir) (Ok s)) as [s1|] eqn:Hs1;
        [|rewrite fold_step_node_err in H; discriminate].
      destruct (fold_step_edge_sound _ _ _ _ _ Hs1) as [G1 G2].
      destruct (IH _ _ H) as [H1 H2]. split.
      + intros y Hy. auto.
      + intros nid0 n0 eid e [<-|Hin] Hf Hin2 He Hact.
        * rewrite Hn in Hf. inversion Hf; subst n0. apply H1. eapply G2; eauto.
        * eapply H2; eauto.
  Qed.
  Lemma step_sound dir i prev s' nid n eid e :
    step aut dir i prev = Ok s' -> In nid prev -> afind_node aut nid = Some n -> In eid (node_eids n dir) ->
    afind_edge aut eid = Some e -> ae_active e i = true -> In (ae_nid e dir) s'.
  Proof. intros H. destruct (fold_step_node_sound _ _ _ _ _ H) as [_ H2]. apply H2. Qed.

  (* ---- what consistency of the automaton gives ---- *)
  Hypothesis Hcons : aut_consistent aut = true.

  Lemma cons_parts :
    nodupz (map (@ae_id R) (a_edges aut)) = true /\
    (forall n, In n (a_nodes aut) -> nodupz (n_in n) = true /\ nodupz (n_out n) = true /\ anode_refs_ok R aut n = true) /\
    (forall e, In e (a_edges aut) -> aedge_refs_ok R aut e = true).
  Proof.
    unfold aut_consistent in Hcons. repeat rewrite andb_true_iff in Hcons.
    destruct Hcons as [[[[[_ H2] H3] H4] _] _]. split; [exact H2|]. split.
    - intros n Hn. rewrite forallb_forall in H3. specialize (H3 n Hn). repeat rewrite andb_true_iff in H3. tauto.
    - intros e He. rewrite forallb_forall in H4. auto.
  Qed.

  Lemma afind_edge_self e : In e (a_edges aut) -> afind_edge aut (ae_id e) = Some e.
  Proof.
    destruct cons_parts as [Hnd _]. unfold afind_edge. revert Hnd.
    induction (a_edges aut) as [|x t IH]; intros Hnd Hin; [destruct Hin|]. simpl in *.
    apply andb_true_iff in Hnd. destruct Hnd as [Hx Ht]. destruct Hin as [->|Hin].
    - rewrite Z.eqb_refl. reflexivity.
    - destruct (Z.eqb_spec (ae_id x) (ae_id e)) as [E|_]; [|auto].
      exfalso. apply negb_true_iff in Hx. assert (zmem (ae_id x) (map (@ae_id R) t) = true); [|congruence].
      apply zmem_in. rewrite E. apply in_map. exact Hin.
  Qed.
  Lemma afind_edge_some eid e : afind_edge aut eid = Some e -> In e (a_edges aut) /\ ae_id e = eid.
  Proof. unfold afind_edge. intros H. apply find_some in H. destruct H as [H1 H2]. apply Z.eqb_eq in H2. auto. Qed.
  Lemma afind_node_some a n : afind_node aut a = Some n -> In n (a_nodes aut) /\ n_id n = a.
  Proof. unfold afind_node. intros H. apply find_some in H. destruct H as [H1 H2]. apply Z.eqb_eq in H2. auto. Qed.

  Lemma edge_ends e : In e (a_edges aut) ->
    (exists n, afind_node aut (ae_from e) = Some n /\ In (ae_id e) (n_out n)) /\
    (exists n, afind_node aut (ae_to e) = Some n /\ In (ae_id e) (n_in n)).
  Proof.
    intros He. destruct cons_parts as [_ [_ H]]. specialize (H e He). unfold aedge_refs_ok in H. simpl in H.
    repeat rewrite andb_true_iff in H. destruct H as [H0 [H1 _]]. split.
    - destruct (afind_node aut (ae_from e)) as [n|]; [|discriminate]. exists n. split; auto. apply zmem_in. exact H0.
    - destruct (afind_node aut (ae_to e)) as [n|]; [|discriminate]. exists n. split; auto. apply zmem_in. exact H1.
  Qed.

  Lemma in_edges_in l e : In e (edges_in aut l) <-> exists eid, In eid l /\ afind_edge aut eid = Some e.
  Proof.
    unfold edges_in. rewrite in_flat_map. split.
    - intros [eid [H1 H2]]. exists eid. split; auto. destruct (afind_edge aut eid); [|destruct H2].
      destruct H2 as [->|[]]. reflexivity.
    - intros [eid [H1 H2]]. exists eid. split; auto. rewrite H2. left; reflexivity.
  Qed.

  Lemma NoDup_edges_in l : NoDup l -> NoDup (edges_in aut l).
  Proof.
    induction l as [|x t IH]; intros H; [constructor|]. inversion H; subst.
    unfold edges_in. simpl. fold (edges_in aut t).
    destruct (afind_edge aut x) as [e|] eqn:He; simpl; [|auto]. constructor; [|auto].
    intros Hin. apply in_edges_in in Hin. destruct Hin as [eid [G1 G2]].
    apply afind_edge_some in He. apply afind_edge_some in G2. destruct He as [_ E1]. destruct G2 as [_ E2].
    match goal with Hn : ~ In x t |- _ => apply Hn end. rewrite <- E1, E2. exact G1.
  Qed.

  Lemma in_edges_perm a na : afind_node aut a = Some na ->
    Permutation (edges_in aut (n_in na)) (filter (fun e => ae_to e =? a) (a_edges aut)).
  Proof.
    intros Hna. destruct (afind_node_some _ _ Hna) as [Hin Hid].
    destruct cons_parts as [Hnd [Hn _]]. destruct (Hn na Hin) as [Hndi [_ Hrefs]].
    apply NoDup_Permutation.
    - apply NoDup_edges_in. apply nodupz_NoDup. exact Hndi.
    - apply NoDup_filter. apply nodupz_NoDup in Hnd. eapply NoDup_map_inv. exact Hnd.
    - intros e. rewrite in_edges_in, filter_In. split.
      + intros [eid [H1 H2]]. destruct (afind_edge_some _ _ H2) as [He _]. split; [exact He|].
        unfold anode_refs_ok in Hrefs. simpl in Hrefs. repeat rewrite andb_true_iff in Hrefs.
        destruct Hrefs as [H0 _]. rewrite forallb_forall in H0. specialize (H0 eid H1). rewrite H2 in H0.
        simpl in H0. rewrite Hid in H0. exact H0.
      + intros [He Hto]. apply Z.eqb_eq in Hto. exists (ae_id e). split; [|apply afind_edge_self; exact He].
        destruct (edge_ends e He) as [_ [n [Hn1 Hn2]]]. rewrite Hto, Hna in Hn1. inversion Hn1; subst. exact Hn2.
  Qed.

  (* ---- dead ends of the forward sweep contribute nothing ---- *)
  Lemma apre_fwd_support : forall wr x s,
    fwd aut (length wr) = Ok s -> ~ In x s -> apre aut (a_t0 aut) wr x = 0r.
  Proof.
    induction wr as [|o w IH]; intros x s Hf Hx; simpl in *.
    - inversion Hf; subst. destruct (Z.eqb_spec x (a_t0 aut)) as [->|]; [|reflexivity]. exfalso. apply Hx. left; reflexivity.
    - destruct (fwd aut (length w)) as [s1|] eqn:Hs1; simpl in Hf; [|discriminate].
      apply suml_zero. intros e He.
      destruct (Z.eqb_spec (ae_to e) x) as [Hto|]; [|reflexivity].
      destruct (ae_active e (length w)) eqn:Hact; [|reflexivity]. simpl.
      destruct (in_dec Z.eq_dec (ae_from e) s1) as [Hin|Hnin].
      + exfalso. apply Hx. rewrite <- Hto.
        destruct (edge_ends e He) as [[n [Hn1 Hn2]] _].
        apply (step_sound 1 (length w) s1 s (ae_from e) n (ae_id e) e); auto. apply afind_edge_self. exact He.
      + rewrite (IH _ _ eq_refl Hnin). ring.
  Qed.
End AutPrune.

Lemma sequence_map_nth {A B} (f : A -> res B) (l : list A) r :
  sequence (map f l) = Ok r -> forall k a, nth_error l k = Some a -> exists b, nth_error r k = Some b /\ f a = Ok b.
Proof.
  revert r; induction l as [|x t IH]; intros r H k a Hk; simpl in H.
  - destruct k; discriminate.
  - destruct (f x) as [b|] eqn:Hb; simpl in H; [|discriminate].
    destruct (sequence (map f t)) as [t'|] eqn:E; simpl in H; [|discriminate]. inversion H; subst.
    destruct k; simpl in *.
    + inversion Hk; subst. exists b. auto.
    + eapply IH; eauto.
Qed.

Section AutMain.
  Variable R : cring.
  Add Ring Rring_c17autm : (k_rt R).
  Notation "0r" := (k0 R). Notation "1r" := (k1 R).
  Infix "*r" := (kmul R) (at level 40, left associativity).
  Variable aut : autop R.
  Hypothesis Hcons : aut_consistent aut = true.
  Variable L : nat.
  Variable all : list (list Z).
  Hypothesis Hall : active_layers aut L = Ok all.
  Let acts := fun i => nth i all [].

  Lemma layer_parts i : (i <= L)%nat ->
    exists s0 s1, back aut L (L - i) = Ok s0 /\ fwd aut i = Ok s1 /\ acts i = filter (fun x => zmem x s1) s0.
  Proof.
    intros Hi. unfold active_layers in Hall.
    assert (Hk : nth_error (seq 0 (S L)) i = Some i).
    { rewrite (nth_error_nth' _ 0%nat) by (rewrite seq_length; lia). rewrite seq_nth by lia. reflexivity. }
    destruct (sequence_map_nth _ _ _ Hall i i Hk) as [l [Hl Hal]].
    unfold active_layer in Hal.
    destruct (back aut L (L - i)) as [s0|]; simpl in Hal; [|discriminate].
    destruct (fwd aut i) as [s1|]; simpl in Hal; [|discriminate].
    inversion Hal; subst l. exists s0, s1. split; [reflexivity|split; [reflexivity|]].
    unfold acts. apply nth_error_nth. exact Hl.
  Qed.

  Lemma apre_act_apre : forall wr a s, (length wr <= L)%nat ->
    back aut L (L - length wr) = Ok s -> In a s -> apre_act aut acts wr a = apre aut (a_t0 aut) wr a.
  Proof.
    induction wr as [|o w IH]; intros a s Hlen Hb Ha; [reflexivity|].
    cbn [apre_act apre]. simpl in Hlen, Hb.
    destruct (layer_parts (length w)) as [s0 [s1 [Hs0 [Hs1 Hacts]]]]; [lia|].
    assert (Hstep : step aut 0 (length w) s = Ok s0).
    { replace (L - length w)%nat with (S (L - S (length w)))%nat in Hs0 by lia. simpl in Hs0.
      rewrite Hb in Hs0. simpl in Hs0. replace (L - S (L - S (length w)))%nat with (length w) in Hs0 by lia. exact Hs0. }
    destruct (afind_node aut a) as [na|] eqn:Hna.
    - rewrite (suml_permutation R _ _ _ (in_edges_perm R aut Hcons a na Hna)). rewrite suml_filter.
      apply suml_ext. intros e He.
      destruct (Z.eqb_spec (ae_to e) a) as [Hto|]; [|reflexivity]. simpl.
      destruct (ae_active e (length w)) eqn:Hact; [|reflexivity]. simpl.
      assert (Hin0 : In (ae_from e) s0).
      { destruct (edge_ends R aut Hcons e He) as [_ [n [Hn1 Hn2]]]. rewrite Hto, Hna in Hn1. inversion Hn1; subst n.
        apply (step_sound R aut 0 (length w) s s0 a na (ae_id e) e); auto. apply afind_edge_self; auto. }
      destruct (zmem (ae_from e) (acts (length w))) eqn:Hz.
      + rewrite (IH (ae_from e) s0); auto. lia.
      + assert (Hnin : ~ In (ae_from e) s1).
        { intros Hin1. assert (zmem (ae_from e) (acts (length w)) = true); [|congruence].
          apply zmem_in. rewrite Hacts. apply filter_In. split; [exact Hin0|]. apply zmem_in. exact Hin1. }
        rewrite (apre_fwd_support R aut Hcons w (ae_from e) s1 Hs1 Hnin). ring.
    - symmetry. apply suml_zero. intros e He.
      destruct (Z.eqb_spec (ae_to e) a) as [Hto|]; [|reflexivity].
      destruct (edge_ends R aut Hcons e He) as [_ [n [Hn1 _]]]. rewrite Hto, Hna in Hn1. discriminate.
  Qed.
End AutMain.

(* the graph unrolled from a consistent automaton denotes the sum over the automaton's paths of length L *)
Theorem from_automaton_den (R : cring) (aut : autop R) (L : nat) (g : graph R) :
  aut_consistent aut = true -> from_automaton aut L = Some g ->
  forall w, den g w = aut_den aut L w.
Proof.
  intros Hcons H w. unfold from_automaton, from_automaton_r in H.
  destruct (from_automaton_raw aut L) as [g'|] eqn:Hraw; simpl in H; [|discriminate].
  destruct (is_consistent g') as [[|]|]; simpl in H; try discriminate. inversion H; subst g'.
  destruct (from_automaton_raw_den R aut L g Hraw) as [all [Hall [_ Hden]]].
  rewrite Hden, aut_den_apre. destruct (Nat.eqb_spec (length w) L) as [E|E]; [|reflexivity].
  apply (apre_act_apre R aut Hcons L all Hall (rev w) (a_t1 aut) [a_t1 aut]).
  - rewrite rev_length. lia.
  - rewrite rev_length, E, Nat.sub_diag. reflexivity.
  - left; reflexivity.
Qed.
Print Assumptions from_automaton_den.
