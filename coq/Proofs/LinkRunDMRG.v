(* Link 4b (C10): single-site DMRG with the Krylov-based local eigensolver [keig_lanczos].  Along the run the LAPACK-level
   contracts of the calls recorded in the trace ([lrtr_ok]: block QR; numpy.linalg.norm, eigh_tridiagonal on the calls of
   each local Lanczos run) imply the Ritz contracts [rtr_ok] consumed by the whole-run theorem, because the invariant of
   the sweep (mixed-canonical form, blocks = contractions of the neighbouring sites, norm one) makes every local
   effective Hamiltonian self-adjoint (Hermitian MPO) and every start tensor non-zero. *)
From Coq Require Import ZArith Arith List Lia Ring Field Setoid Bool.
From PT Require Import Base.Scalar Base.Field Base.BigSum Base.Mx Model.Tensor Model.Operation Model.Krylov Model.Sweeps
  Proofs.OperationSums Proofs.OperationEntries Proofs.OperationChains Proofs.OperationLocal Proofs.OperationUniform
  Proofs.KrylovLanczos Proofs.KrylovRitz
  Proofs.SweepsCanon Proofs.SweepsFlow Proofs.SweepsSched Proofs.SweepsLocal Proofs.SweepsGauge Proofs.SweepsBond Proofs.SweepsInv Proofs.SweepsRun
  Proofs.LinkFlatten Proofs.LinkLocalOps Proofs.LinkSolvers Proofs.LinkCtx.
Import ListNotations.

Section LinkDMRG1.
  Variable F : ofield.
  Notation K := (Cx F).
  Variable qr : nat -> mx K -> list BinNums.Z -> list BinNums.Z -> mx K * mx K * list BinNums.Z.
  Variable dnorm : list K -> F.
  Variable small : F -> bool.
  Variable deigh : list F -> list F -> list F * list (list F).
  Variable numiter : nat.
  Notation keig := (keig_lanczos F dnorm small deigh numiter).
  Variable Hs : list (osite K).
  Variable qd : list BinNums.Z.
  Variable d : nat.
  Variable DsW : list nat.
  Hypothesis Hd : 0 < d.
  Hypothesis HWs : ochain_ok (repeat d (length Hs)) DsW Hs.
  Hypothesis HhW : hd 0 DsW = 1.
  Hypothesis Hherm : mpo_herm F Hs d.
  Hypothesis small_pos : small_sound F small.
  Hypothesis Hm : 1 <= numiter.
  Notation L := (length Hs).
  Notation Zi := (Z K Hs d).
  Notation NNi := (NN K Hs d).
  Notation EEi := (EE K Hs d).
  Notation rok := (rtr_ok qr keig Hs d).

  (* LAPACK-level contracts of the calls recorded in a trace of single-site DMRG *)
  Definition ldmrg_call_ok (p : nat) (t : tcall K) : Prop :=
    match c_kind (t_call t), t_envs t, t_ten t, t_qs t with
    | EIG, [BL; BR], [A], _ => keig_lanczos_calls_ok F dnorm small deigh numiter BL BR (nth (c_site (t_call t)) Hs []) A
    | QR, _, [[M]], [q0; q1] => qr_ok M (qr p M q0 q1)
    | _, _, _, _ => True
    end.
  Fixpoint lrtr_ok (tr : list (tcall K)) : Prop :=
    match tr with [] => True | t :: rest => ldmrg_call_ok (length rest) t /\ lrtr_ok rest end.
  Lemma lrtr_ok_suffix new old : lrtr_ok (new ++ old) -> lrtr_ok old.
  Proof. induction new as [|t new IH]; [exact (fun H => H)|]. cbn [app lrtr_ok]. intros [_ H]. exact (IH H). Qed.

  (* per call: an EIG call issued at a state satisfying the invariant meets the Ritz contract *)
  Lemma eig_entry_ok (st : sw K) i p : Zi st i -> NNi (s_A st) = k1 K ->
    keig_lanczos_calls_ok F dnorm small deigh numiter (gBL st i) (gBR st i) (nth i Hs []) (gA st i) ->
    keig_ok d (gBL st i) (gBR st i) (nth i Hs []) (gA st i) (keig p (gBL st i) (gBR st i) (nth i Hs []) (gA st i)).
  Proof.
    intros HZ HN Hc.
    destruct (Z_local_ctx F Hs d DsW Hd HWs HhW st i HZ) as (Dl & Dr & Dwl & Dwr & Hwl & Hwr & HW & HBL & HBR & HA & N0 & Hsa).
    apply (keig_from_krylov F dnorm small deigh numiter small_pos Hm d Dl Dr Dwl Dwr); try assumption.
    - apply Hsa. exact Hherm.
    - rewrite <- N0, HN. apply k1_neq_k0.
  Qed.

  Definition Q (i : nat) (se : sw K * K) : Prop := Zi (fst se) i /\ NNi (s_A (fst se)) = k1 K /\ rok (s_tr (fst se)).

  Lemma lr_bridge se i : Zi (fst se) i -> NNi (s_A (fst se)) = k1 K -> rok (s_tr (fst se)) ->
    lrtr_ok (s_tr (fst (dmrg1_lr qr keig Hs qd se i))) -> rok (s_tr (fst (dmrg1_lr qr keig Hs qd se i))).
  Proof.
    intros HZ HN Hold Hl. destruct se as [st en0]. cbn [fst] in HZ, HN, Hold.
    unfold dmrg1_lr, lift, upd_BL, dmrg_qr_left, qr_left, dmrg_opt in *. cbv zeta in *. cbn [fst snd] in *.
    destruct (keig_lanczos F dnorm small deigh numiter (length (s_tr st)) (gBL st i) (gBR st i) (nth i Hs []) (gA st i)) as [en A1].
    cbn [fst snd s_tr s_A s_qD s_BL s_BR] in *.
    destruct (qr _ _ _ _) as [[Q0 C] qb]. cbn [fst snd s_tr] in *.
    destruct Hl as (_ & HQ & HE & _). split; [exact I|]. split; [exact HQ|]. split; [|exact Hold]. exact (eig_entry_ok st i (length (s_tr st)) HZ HN HE).
  Qed.
  Lemma rl_bridge se i : Zi (fst se) i -> NNi (s_A (fst se)) = k1 K -> rok (s_tr (fst se)) ->
    lrtr_ok (s_tr (fst (dmrg1_rl qr keig Hs qd se i))) -> rok (s_tr (fst (dmrg1_rl qr keig Hs qd se i))).
  Proof.
    intros HZ HN Hold Hl. destruct se as [st en0]. cbn [fst] in HZ, HN, Hold.
    unfold dmrg1_rl, lift, upd_BR, dmrg_qr_right, qr_right, dmrg_opt in *. cbv zeta in *. cbn [fst snd] in *.
    destruct (keig_lanczos F dnorm small deigh numiter (length (s_tr st)) (gBL st i) (gBR st i) (nth i Hs []) (gA st i)) as [en A1].
    cbn [fst snd s_tr s_A s_qD s_BL s_BR] in *.
    destruct (qr _ _ _ _) as [[Q0 C] qb]. cbn [fst snd s_tr] in *.
    destruct Hl as (_ & HQ & HE & _). split; [exact I|]. split; [exact HQ|]. split; [|exact Hold]. exact (eig_entry_ok st i (length (s_tr st)) HZ HN HE).
  Qed.
  Lemma final_bridge (st : sw K) : rok (s_tr st) -> lrtr_ok (s_tr (dmrg_final_qr qr qd st)) -> rok (s_tr (dmrg_final_qr qr qd st)).
  Proof.
    intros Hold Hl. unfold dmrg_final_qr, qr_right in *. cbv zeta in *. destruct (qr _ _ _ _) as [[Q0 C] qb]. cbn [s_tr] in *.
    destruct Hl as (HQ & _). split; [exact HQ|exact Hold].
  Qed.

  Let LBT : K -> Prop := fun _ => True.
  Lemma HLBT : forall A : list (site K), NNi A = k1 K -> LBT (EEi A).
  Proof. intros; exact I. Qed.

  Lemma step_lr se i : Q i se -> S i < L -> lrtr_ok (s_tr (fst (dmrg1_lr qr keig Hs qd se i))) -> Q (S i) (dmrg1_lr qr keig Hs qd se i).
  Proof.
    intros (HZ & HN & Hold) HSi Hl. pose proof (lr_bridge se i HZ HN Hold Hl) as Hr.
    assert (Hpre : Pre F Hs d (cre (EEi (s_A (fst se)))) i se) by (split; [exact HZ|split; [exact HN|apply fle_refl]]).
    destruct (lr_body F qr keig Hs qd d DsW Hd HWs HhW LBT HLBT _ se i Hpre HSi Hr) as (HZ' & HN' & _).
    split; [exact HZ'|]. split; [exact HN'|exact Hr].
  Qed.
  Lemma step_rl se i : Q i se -> 0 < i -> lrtr_ok (s_tr (fst (dmrg1_rl qr keig Hs qd se i))) -> Q (i - 1) (dmrg1_rl qr keig Hs qd se i).
  Proof.
    intros (HZ & HN & Hold) Hi Hl. pose proof (rl_bridge se i HZ HN Hold Hl) as Hr.
    assert (Hpre : Pre F Hs d (cre (EEi (s_A (fst se)))) i se) by (split; [exact HZ|split; [exact HN|apply fle_refl]]).
    destruct (rl_body F qr keig Hs qd d DsW Hd HWs HhW LBT HLBT _ se i Hpre Hi Hr) as (HZ' & HN' & _).
    split; [exact HZ'|]. split; [exact HN'|exact Hr].
  Qed.

  Lemma sweep_bridge (st : sw K) : 2 <= L -> Q 0 (st, k0 K) ->
    lrtr_ok (s_tr (fst (dmrg1_sweep qr keig Hs qd L st))) -> Q 0 (dmrg1_sweep qr keig Hs qd L st).
  Proof.
    intros HL2 HQ Hok. unfold dmrg1_sweep, lift in *. cbv zeta in *. cbn [fst snd] in *.
    set (se1 := fold_left (dmrg1_lr qr keig Hs qd) (seq 0 (L - 1)) (st, k0 K)) in *.
    set (se2 := fold_left (dmrg1_rl qr keig Hs qd) (rev (seq 1 (L - 1))) se1) in *.
    assert (Hok2 : lrtr_ok (s_tr (fst se2))).
    { revert Hok. generalize (fst se2) as st2. intros st2. unfold dmrg_final_qr, qr_right. cbv zeta.
      destruct (qr _ _ _ _) as [[Q0 C] qb]. cbn [s_tr]. intros (_ & H). exact H. }
    assert (Hok1 : lrtr_ok (s_tr (fst se1))).
    { destruct (fold_mono (fun se => s_tr (fst se)) (dmrg1_rl qr keig Hs qd) (suf_dmrg1_rl K qr keig Hs qd) (rev (seq 1 (L - 1))) se1) as [new E].
      fold se2 in E. rewrite E in Hok2. exact (lrtr_ok_suffix _ _ Hok2). }
    assert (H1 : Q (0 + (L - 1)) se1).
    { unfold se1.
      apply (fold_up (fun se => s_tr (fst se)) (dmrg1_lr qr keig Hs qd) (suf_dmrg1_lr K qr keig Hs qd) lrtr_ok lrtr_ok_suffix Q (L - 1) 0 (st, k0 K) HQ Hok1).
      intros i s' Hi HQi Hoki. apply step_lr; [exact HQi|lia|exact Hoki]. }
    assert (H2 : Q 0 se2).
    { unfold se2.
      apply (fold_down (fun se => s_tr (fst se)) (dmrg1_rl qr keig Hs qd) (suf_dmrg1_rl K qr keig Hs qd) lrtr_ok lrtr_ok_suffix Q (L - 1) 0 se1 H1 Hok2).
      intros i s' Hi HQi Hoki. apply step_rl; [exact HQi|lia|exact Hoki]. }
    destruct H2 as (HZ2 & HN2 & Hr2).
    pose proof (final_bridge (fst se2) Hr2 Hok) as Hr3.
    destruct (final_step F qr keig Hs qd d DsW Hd HWs HhW (fst se2) HZ2 HN2 Hr3) as (HZ3 & HN3 & _).
    split; [exact HZ3|]. split; [exact HN3|exact Hr3].
  Qed.

  Lemma loop_bridge n : forall (st : sw K) ens, 2 <= L -> Q 0 (st, k0 K) ->
    lrtr_ok (s_tr (fst (dmrg_loop (dmrg1_sweep qr keig Hs qd L) n st ens))) ->
    rok (s_tr (fst (dmrg_loop (dmrg1_sweep qr keig Hs qd L) n st ens))).
  Proof.
    induction n as [|n IH]; intros st ens HL2 HQ Hok; cbn [dmrg_loop] in *; [cbn [fst]; apply HQ|].
    assert (Hok1 : lrtr_ok (s_tr (fst (dmrg1_sweep qr keig Hs qd L st)))).
    { revert Hok. destruct (dmrg1_sweep qr keig Hs qd L st) as [st' en]. cbn [fst]. intros Hok.
      destruct (suf_dmrg_loop F qr keig Hs qd n st' (ens ++ [en])) as [new E]. rewrite E in Hok. exact (lrtr_ok_suffix _ _ Hok). }
    pose proof (sweep_bridge st HL2 HQ Hok1) as HQ'.
    destruct (dmrg1_sweep qr keig Hs qd L st) as [st' en]. apply IH; [exact HL2| |exact Hok].
    exact HQ'.
  Qed.
End LinkDMRG1.

Arguments lrtr_ok {F} qr dnorm small deigh numiter Hs tr.
Arguments ldmrg_call_ok {F} qr dnorm small deigh numiter Hs p t.

(* the LAPACK-level trace contract implies the Ritz-level one along every run of dmrg_singlesite *)
Theorem dmrg1_lapack_to_ritz (F : ofield) orth qr dnorm small deigh numiter (H : mpo (Cx F)) psi n d DsW Ds0 A qD ens tr :
  dmrg_singlesite orth qr (keig_lanczos F dnorm small deigh numiter) H psi n = Some (A, qD, ens, tr) ->
  mpo_shapeb d DsW (o_A H) = true -> mps_shapeb d Ds0 (m_A (fst (orth psi))) = true ->
  Forall right_iso (m_A (fst (orth psi))) -> 2 <= length (o_A H) ->
  mpo_herm F (o_A H) d -> small_sound F small -> 1 <= numiter ->
  lrtr_ok qr dnorm small deigh numiter (o_A H) (rev tr) ->
  rtr_ok qr (keig_lanczos F dnorm small deigh numiter) (o_A H) d (rev tr).
Proof.
  intros Hrun HH Hp Hiso HL2 Hherm Hsm Hm Hok.
  unfold dmrg_singlesite in Hrun. destruct (sweep_init orth H psi) as [[st nrm]|] eqn:Einit; [|discriminate].
  assert (Hd : 0 < d).
  { unfold mpo_shapeb in HH. rewrite !andb_true_iff in HH. destruct HH as (((((HH & _) & _) & _) & _) & _). apply Nat.ltb_lt. exact HH. }
  destruct (Z_init (Cx F) d Hd orth H psi st nrm DsW Ds0 Einit HH Hp Hiso) as (HZ & HN & Etr & _ & HWs & HhW).
  destruct (dmrg_loop (dmrg1_sweep qr (keig_lanczos F dnorm small deigh numiter) (o_A H) (m_qd psi) (length (o_A H))) n st []) as [st' ens'] eqn:El.
  injection Hrun as <- <- <- <-. rewrite rev_involutive in *.
  pose proof (loop_bridge F qr dnorm small deigh numiter (o_A H) (m_qd psi) d DsW Hd HWs HhW Hherm Hsm Hm n st [] HL2) as Hb.
  rewrite El in Hb. cbn [fst] in Hb. apply Hb; [|exact Hok].
  split; [exact HZ|]. split; [exact HN|]. cbn [fst]. rewrite Etr. exact I.
Qed.

(* WHOLE RUN with the Krylov-based eigensolver: the remaining hypotheses are LAPACK-level contracts on the issued calls and
   Hermiticity of the MPO *)
Theorem dmrg1_run_lapack (F : ofield) orth qr dnorm small deigh numiter (H : mpo (Cx F)) psi n d DsW Ds0 lam A qD ens tr :
  dmrg_singlesite orth qr (keig_lanczos F dnorm small deigh numiter) H psi n = Some (A, qD, ens, tr) ->
  mpo_shapeb d DsW (o_A H) = true -> mps_shapeb d Ds0 (m_A (fst (orth psi))) = true ->
  Forall right_iso (m_A (fst (orth psi))) ->
  2 <= length (o_A H) -> bounded_below d (length (o_A H)) (o_A H) lam ->
  mpo_herm F (o_A H) d -> small_sound F small -> 1 <= numiter ->
  lrtr_ok qr dnorm small deigh numiter (o_A H) (rev tr) ->
  let L := length (o_A H) in
  let E0 := denergy d L (m_A (fst (orth psi))) (o_A H) in
  dnorm2 d L A = k1 (Cx F) /\ length ens = n /\
  Forall (fun e => fle F lam (cre e) /\ fle F (cre e) (cre E0)) ens /\ noninc ens /\
  (ens <> [] -> last ens (k0 (Cx F)) = denergy d L A (o_A H)).
Proof.
  intros Hrun HH Hp Hiso HL2 Hlam Hherm Hsm Hm Hok.
  apply (dmrg1_run F orth qr (keig_lanczos F dnorm small deigh numiter) H psi n d DsW Ds0 lam A qD ens tr); try assumption.
  apply (dmrg1_lapack_to_ritz F orth qr dnorm small deigh numiter H psi n d DsW Ds0 A qD ens tr); assumption.
Qed.
