(* C04 — toolkit for rearranging nested finite sums: every index sum is brought into the form
   [suml list (fun x => ...)], factors are pushed inside ([spush]), the nest is reordered with the
   [suml_frontK] lemmas (bring the K-th nested sum to the front) and the bodies are compared by [ring]. *)
From Coq Require Import Arith List Lia Ring Setoid Morphisms Bool.
From PT Require Import Base.Scalar Base.BigSum.
Import ListNotations.

Section Sums.
  Variable R : cring.
  Add Ring Rring_c04_sums : (k_rt R).
  Notation "0" := (k0 R). Notation "1" := (k1 R).
  Infix "+" := (kadd R). Infix "*" := (kmul R).

  Global Instance suml_proper {A} (l : list A) :
    Proper (pointwise_relation A eq ==> eq) (@suml R A l).
  Proof. intros f g H. apply suml_ext. intros x _. apply H. Qed.

  Global Instance sumn_proper (n : nat) :
    Proper (pointwise_relation nat eq ==> eq) (@sumn R n).
  Proof. intros f g H. apply sumn_ext. intros x _. apply H. Qed.

  Lemma suml_conj {A} (l : list A) (f : A -> R) : kconj R (suml l f) = suml l (fun x => kconj R (f x)).
  Proof. induction l; simpl; [apply kconj_0|]. rewrite kconj_add, IHl. reflexivity. Qed.

  Lemma suml_0 {A} (l : list A) : suml l (fun _ => 0) = 0.
  Proof. apply suml_zero; auto. Qed.

  Lemma c04_suml_flat_map {A B} (g : A -> list B) (l : list A) (f : B -> R) :
    suml (flat_map g l) f = suml l (fun x => suml (g x) f).
  Proof. induction l; simpl; [reflexivity|]. rewrite suml_app, IHl. reflexivity. Qed.

  Lemma suml_one {A} (x : A) (f : A -> R) : suml [x] f = f x.
  Proof. simpl. ring. Qed.

  (* bring the K-th nested sum to the front *)
  Lemma suml_front2 {A B} (la : list A) (lb : list B) (f : A -> B -> R) :
    suml la (fun a => suml lb (fun b => f a b)) = suml lb (fun b => suml la (fun a => f a b)).
  Proof. apply suml_exch. Qed.

  Lemma suml_front3 {A B C} (la : list A) (lb : list B) (lc : list C) (f : A -> B -> C -> R) :
    suml la (fun a => suml lb (fun b => suml lc (fun c => f a b c))) =
    suml lc (fun c => suml la (fun a => suml lb (fun b => f a b c))).
  Proof.
    transitivity (suml la (fun a => suml lc (fun c => suml lb (fun b => f a b c)))).
    - apply suml_ext; intros a _. apply suml_exch.
    - apply (suml_exch R la lc (fun a c => suml lb (fun b => f a b c))).
  Qed.

  Lemma suml_front4 {A B C D} (la : list A) (lb : list B) (lc : list C) (ld : list D) (f : A -> B -> C -> D -> R) :
    suml la (fun a => suml lb (fun b => suml lc (fun c => suml ld (fun d => f a b c d)))) =
    suml ld (fun d => suml la (fun a => suml lb (fun b => suml lc (fun c => f a b c d)))).
  Proof.
    transitivity (suml la (fun a => suml ld (fun d => suml lb (fun b => suml lc (fun c => f a b c d))))).
    - apply suml_ext; intros a _. apply (suml_front3 lb lc ld (fun b c d => f a b c d)).
    - apply (suml_exch R la ld (fun a d => suml lb (fun b => suml lc (fun c => f a b c d)))).
  Qed.

  Lemma suml_front5 {A B C D E} (la : list A) (lb : list B) (lc : list C) (ld : list D) (le : list E)
        (f : A -> B -> C -> D -> E -> R) :
    suml la (fun a => suml lb (fun b => suml lc (fun c => suml ld (fun d => suml le (fun e => f a b c d e))))) =
    suml le (fun e => suml la (fun a => suml lb (fun b => suml lc (fun c => suml ld (fun d => f a b c d e))))).
  Proof.
    transitivity (suml la (fun a => suml le (fun e => suml lb (fun b => suml lc (fun c => suml ld (fun d => f a b c d e)))))).
    - apply suml_ext; intros a _. apply (suml_front4 lb lc ld le (fun b c d e => f a b c d e)).
    - apply (suml_exch R la le (fun a e => suml lb (fun b => suml lc (fun c => suml ld (fun d => f a b c d e))))).
  Qed.

  Lemma suml_front6 {A B C D E F} (la : list A) (lb : list B) (lc : list C) (ld : list D) (le : list E) (lf : list F)
        (f : A -> B -> C -> D -> E -> F -> R) :
    suml la (fun a => suml lb (fun b => suml lc (fun c => suml ld (fun d => suml le (fun e => suml lf (fun x => f a b c d e x)))))) =
    suml lf (fun x => suml la (fun a => suml lb (fun b => suml lc (fun c => suml ld (fun d => suml le (fun e => f a b c d e x)))))).
  Proof.
    transitivity (suml la (fun a => suml lf (fun x => suml lb (fun b => suml lc (fun c => suml ld (fun d => suml le (fun e => f a b c d e x))))))).
    - apply suml_ext; intros a _. apply (suml_front5 lb lc ld le lf (fun b c d e x => f a b c d e x)).
    - apply (suml_exch R la lf (fun a x => suml lb (fun b => suml lc (fun c => suml ld (fun d => suml le (fun e => f a b c d e x)))))).
  Qed.

  Lemma suml_front7 {A B C D E F G} (la : list A) (lb : list B) (lc : list C) (ld : list D) (le : list E) (lf : list F)
        (lg : list G) (f : A -> B -> C -> D -> E -> F -> G -> R) :
    suml la (fun a => suml lb (fun b => suml lc (fun c => suml ld (fun d => suml le (fun e => suml lf (fun x =>
      suml lg (fun y => f a b c d e x y))))))) =
    suml lg (fun y => suml la (fun a => suml lb (fun b => suml lc (fun c => suml ld (fun d => suml le (fun e =>
      suml lf (fun x => f a b c d e x y))))))).
  Proof.
    transitivity (suml la (fun a => suml lg (fun y => suml lb (fun b => suml lc (fun c => suml ld (fun d => suml le (fun e =>
      suml lf (fun x => f a b c d e x y)))))))).
    - apply suml_ext; intros a _. apply (suml_front6 lb lc ld le lf lg (fun b c d e x y => f a b c d e x y)).
    - apply (suml_exch R la lg (fun a y => suml lb (fun b => suml lc (fun c => suml ld (fun d => suml le (fun e =>
        suml lf (fun x => f a b c d e x y))))))).
  Qed.

  Lemma suml_front8 {A B C D E F G H} (la : list A) (lb : list B) (lc : list C) (ld : list D) (le : list E) (lf : list F)
        (lg : list G) (lh : list H) (f : A -> B -> C -> D -> E -> F -> G -> H -> R) :
    suml la (fun a => suml lb (fun b => suml lc (fun c => suml ld (fun d => suml le (fun e => suml lf (fun x =>
      suml lg (fun y => suml lh (fun z => f a b c d e x y z)))))))) =
    suml lh (fun z => suml la (fun a => suml lb (fun b => suml lc (fun c => suml ld (fun d => suml le (fun e =>
      suml lf (fun x => suml lg (fun y => f a b c d e x y z)))))))).
  Proof.
    transitivity (suml la (fun a => suml lh (fun z => suml lb (fun b => suml lc (fun c => suml ld (fun d => suml le (fun e =>
      suml lf (fun x => suml lg (fun y => f a b c d e x y z))))))))).
    - apply suml_ext; intros a _. apply (suml_front7 lb lc ld le lf lg lh (fun b c d e x y z => f a b c d e x y z)).
    - apply (suml_exch R la lh (fun a z => suml lb (fun b => suml lc (fun c => suml ld (fun d => suml le (fun e =>
        suml lf (fun x => suml lg (fun y => f a b c d e x y z)))))))).
  Qed.

  (* a sum over seq with a Kronecker delta *)
  Lemma suml_delta_l n k (f : nat -> R) : k < n ->
    suml (seq 0 n) (fun i => (if Nat.eqb i k then 1 else 0) * f i) = f k.
  Proof. intros H. rewrite suml_seq. apply sumn_delta_l. exact H. Qed.
End Sums.

Arguments suml_front2 {R A B} la lb f.
Arguments suml_front3 {R A B C} la lb lc f.
Arguments suml_front4 {R A B C D} la lb lc ld f.
Arguments suml_front5 {R A B C D E} la lb lc ld le f.
Arguments suml_front6 {R A B C D E F} la lb lc ld le lf f.
Arguments suml_front7 {R A B C D E F G} la lb lc ld le lf lg f.
Arguments suml_front8 {R A B C D E F G H} la lb lc ld le lf lg lh f.

(* all index sums as list sums *)
Ltac to_suml := repeat setoid_rewrite <- suml_seq.

(* push every factor and every conjugation inside the sums *)
Ltac spush :=
  repeat first
    [ setoid_rewrite <- suml_scal_l
    | setoid_rewrite <- suml_scal_r
    | setoid_rewrite suml_conj
    | setoid_rewrite kconj_mul
    | setoid_rewrite kconj_inv ];
  cbv beta.

(* bring the K-th nested sum of the left-hand side to the front and enter it on both sides *)
Ltac sfront_lemma k :=
  match k with
  | 1 => fail
  | 2 => apply suml_front2 | 3 => apply suml_front3 | 4 => apply suml_front4 | 5 => apply suml_front5
  | 6 => apply suml_front6 | 7 => apply suml_front7 | 8 => apply suml_front8
  end.
Ltac sfront k := etransitivity; [ sfront_lemma k | ]; cbv beta.
Ltac senter := apply suml_ext; intros ? ?.
