(* C17, "the graph is consistent and of the requested length", operator trees:
   the graph assembled by OpGraph.from_optrees (before simplify) satisfies [Built] of Proofs/C17LenBase.v
   (cross references, levels 0..L raised by one along every edge, no dangling nodes), hence it is well formed,
   is_consistent never answers False and its length is L. *)
From Coq Require Import ZArith List Lia Bool Permutation.
From PT Require Import Base.Scalar Base.BigSum Model.OpGraph Model.Rewrites Model.C17Common Model.OpTree
                       Proofs.RewritesBase Proofs.RewritesConsistent Proofs.C17GraphSem Proofs.C17OpTree Proofs.C17LenBase.
Import ListNotations.
Open Scope Z_scope.

Section LenTree.
  Variable R : cring.
  Notation graph := (graph R).
  Notation gedge := (gedge R).
  Notation tree := (tree R).
  Variable oid_id : Z.
  Variable L : nat.
  Notation Lz := (Z.of_nat L).

  (* ---------- invariant, extension, fresh nodes ---------- *)
  Definition LW (g : graph) (lv : Z -> Z) : Prop := PW R g lv /\ LevB R g lv Lz.
  Definition Agree (g : graph) (lv lv' : Z -> Z) : Prop := forall x, In x (nids R g) -> lv' x = lv x.
  Definition Ext (g g' : graph) : Prop :=
    (forall x, In x (nids R g) -> In x (nids R g')) /\
    (forall x, hasin R g x -> hasin R g' x) /\
    (forall x, hasout R g x -> hasout R g' x) /\
    g_t0 g' = g_t0 g /\ g_t1 g' = g_t1 g.
  Definition Fresh (g g' : graph) (P : Z -> Prop) : Prop :=
    forall x, In x (nids R g') -> ~ In x (nids R g) -> P x.
  Definition InOut (g : graph) (x : Z) : Prop := hasin R g x /\ hasout R g x.

  Lemma Ext_refl g : Ext g g.
  Proof. unfold Ext. repeat split; auto. Qed.
  Lemma Ext_trans g1 g2 g3 : Ext g1 g2 -> Ext g2 g3 -> Ext g1 g3.
  Proof.
    intros [A1 [A2 [A3 [A4 A5]]]] [B1 [B2 [B3 [B4 B5]]]]. unfold Ext.
    split; [auto|]. split; [auto|]. split; [auto|]. split; congruence.
  Qed.
  Lemma Ext_nids g g' x : Ext g g' -> In x (nids R g) -> In x (nids R g').
  Proof. intros [A _]. apply A. Qed.
  Lemma Ext_in g g' x : Ext g g' -> hasin R g x -> hasin R g' x.
  Proof. intros [_ [A _]]. apply A. Qed.
  Lemma Ext_out g g' x : Ext g g' -> hasout R g x -> hasout R g' x.
  Proof. intros [_ [_ [A _]]]. apply A. Qed.
  Lemma Ext_t0 g g' : Ext g g' -> g_t0 g' = g_t0 g.
  Proof. intros [_ [_ [_ [A _]]]]. exact A. Qed.
  Lemma Ext_t1 g g' : Ext g g' -> g_t1 g' = g_t1 g.
  Proof. intros [_ [_ [_ [_ A]]]]. exact A. Qed.
  Lemma Ext_InOut g g' x : Ext g g' -> InOut g x -> InOut g' x.
  Proof. intros E [A B]. split; [eapply Ext_in|eapply Ext_out]; eauto. Qed.

  Lemma Agree_refl g lv : Agree g lv lv.
  Proof. intros x _. reflexivity. Qed.
  Lemma Agree_trans g g' lv lv1 lv2 : Ext g g' -> Agree g lv lv1 -> Agree g' lv1 lv2 -> Agree g lv lv2.
  Proof. intros E A B x Hx. rewrite B by (eapply Ext_nids; eauto). apply A. exact Hx. Qed.

  Lemma nids_dec (g : graph) x : {In x (nids R g)} + {~ In x (nids R g)}.
  Proof. apply in_dec. apply Z.eq_dec. Qed.

  (* new nodes of a two-step extension *)
  Lemma Fresh_trans g g1 g2 (P1 P2 P : Z -> Prop) :
    Fresh g g1 P1 -> Fresh g1 g2 P2 -> (forall x, P1 x -> P x) -> (forall x, P2 x -> P x) -> Fresh g g2 P.
  Proof.
    intros F1 F2 H1 H2 x Hx Hn. destruct (nids_dec g1 x) as [Hi|Hi]; [apply H1, F1; assumption|apply H2, F2; assumption].
  Qed.

  Lemma LW_bounds g lv x : LW g lv -> In x (nids R g) -> 0 <= lv x <= Lz.
  Proof. intros [_ B]. apply (lb_b R g lv Lz B). Qed.

  (* ---------- primitive (a): a fresh node at level k ---------- *)
  Lemma LW_add_node (g g' : graph) lv nid q k :
    LW g lv -> 0 <= k <= Lz -> add_node g (mknode nid [] [] q) = Some g' ->
    exists lv', LW g' lv' /\ Agree g lv lv' /\ Ext g g' /\ nids R g' = nids R g ++ [nid] /\
                ~ In nid (nids R g) /\ lv' nid = k.
  Proof.
    intros [W B] Hk H.
    destruct (add_node_PW R g g' lv nid q W H) as [_ [Hfresh _]].
    set (lv' := fun x => if x =? nid then k else lv x).
    assert (Hag : Agree g lv lv').
    { intros x Hx. unfold lv'. destruct (Z.eqb_spec x nid) as [E|]; [subst x; contradiction|reflexivity]. }
    assert (W' : PW R g lv') by (apply (PW_lv_ext R g lv lv' W); exact Hag).
    destruct (add_node_PW R g g' lv' nid q W' H) as [W2 [_ [Hids [Hnodes [_ [T0 T1]]]]]].
    destruct (add_node_mono R g g' nid q Hnodes) as [M1 [M2 _]].
    assert (Hnid : lv' nid = k) by (unfold lv'; rewrite Z.eqb_refl; reflexivity).
    exists lv'. split; [|split; [exact Hag|split; [|split; [exact Hids|split; [exact Hfresh|exact Hnid]]]]].
    - split; [exact W2|]. destruct B as [B1 B2 B3 B4 B5]. constructor.
      + rewrite Hids, T0. apply in_or_app. left. exact B1.
      + rewrite Hids, T1. apply in_or_app. left. exact B2.
      + rewrite T0, (Hag _ B1). exact B3.
      + rewrite T1, (Hag _ B2). exact B4.
      + intros x Hx. rewrite Hids in Hx. apply in_app_or in Hx. destruct Hx as [Hx|[<-|[]]].
        * rewrite (Hag _ Hx). apply B5. exact Hx.
        * rewrite Hnid. exact Hk.
    - unfold Ext. split; [|split; [exact M1|split; [exact M2|split; [exact T0|exact T1]]]].
      intros x Hx. rewrite Hids. apply in_or_app. left. exact Hx.
  Qed.

  (* ---------- primitive (b): an edge between two existing nodes of consecutive levels ---------- *)
  Lemma LW_add_edge (g g' : graph) lv eid a b ops :
    LW g lv -> In a (nids R g) -> In b (nids R g) -> lv b = lv a + 1 ->
    add_connect_edge g (new_edge eid a b ops) = Some g' ->
    LW g' lv /\ Ext g g' /\ nids R g' = nids R g /\ hasout R g' a /\ hasin R g' b.
  Proof.
    intros [W B] Ha Hb Hl H.
    destruct (add_connect_edge_PW R g g' lv (new_edge eid a b ops) W Ha Hb Hl (new_edge_sorted R eid a b ops) H)
      as [W' [Hids [_ [T0 [T1 [M1 [M2 [Hin [Hout _]]]]]]]]].
    split; [|split; [|split; [exact Hids|split; [exact Hout|exact Hin]]]].
    - split; [exact W'|]. destruct B as [B1 B2 B3 B4 B5]. constructor.
      + rewrite Hids, T0. exact B1.
      + rewrite Hids, T1. exact B2.
      + rewrite T0. exact B3.
      + rewrite T1. exact B4.
      + intros x Hx. rewrite Hids in Hx. apply B5. exact Hx.
    - unfold Ext. split; [|split; [exact M1|split; [exact M2|split; [exact T0|exact T1]]]].
      intros x Hx. rewrite Hids. exact Hx.
  Qed.

  (* ---------- (c) the child step of _insert_subtree in terms of the two primitives ---------- *)
  Lemma child_old (g g2 : graph) root next eid ops :
    add_edge (upd_node g root (node_add_eid eid 1)) (new_edge eid root next ops) = Some g2 ->
    add_connect_edge g (new_edge eid root next ops) = Some (upd_node g2 next (node_add_eid eid 0)).
  Proof.
    unfold add_connect_edge, add_edge, has_edge_id, upd_node, new_edge.
    cbn [g_nodes g_edges g_t0 g_t1 e_id e_from e_to].
    destruct (existsb _ (g_edges g)); [discriminate|]. intros H. inversion H; subst g2; clear H.
    cbn [g_nodes g_edges g_t0 g_t1]. reflexivity.
  Qed.

  Lemma child_new (g g2 g3 : graph) root next eid ops q :
    In root (nids R g) ->
    add_edge (upd_node g root (node_add_eid eid 1)) (new_edge eid root next ops) = Some g2 ->
    add_node g2 (mknode next [eid] [] q) = Some g3 ->
    exists g1, add_node g (mknode next [] [] q) = Some g1 /\
               add_connect_edge g1 (new_edge eid root next ops) = Some g3.
  Proof.
    intros Hroot H1 H2. set (e := new_edge eid root next ops) in *.
    unfold add_edge in H1. change (has_edge_id (upd_node g root (node_add_eid eid 1)) (e_id e)) with (has_edge_id g eid) in H1.
    destruct (has_edge_id g eid) eqn:He; [discriminate|]. inversion H1; subst g2; clear H1.
    unfold add_node in H2. cbn [n_id] in H2.
    match type of H2 with (if has_node ?gg next then _ else _) = _ => destruct (has_node gg next) eqn:Hn2; [discriminate|] end.
    inversion H2; subst g3; clear H2. cbn [g_nodes g_edges g_t0 g_t1 upd_node].
    assert (Hn : has_node g next = false).
    { destruct (has_node g next) eqn:Hn; [|reflexivity]. exfalso.
      apply In_nids_has in Hn. assert (Hn' : In next (nids R (upd_node g root (node_add_eid eid 1)))).
      { unfold nids, upd_node in *. cbn [g_nodes]. rewrite map_map.
        erewrite map_ext; [exact Hn|]. intros n. cbn beta. destruct (n_id n =? root); [destruct n; reflexivity|reflexivity]. }
      unfold has_node in Hn2. cbn [g_nodes upd_node] in Hn2.
      apply In_nids_has in Hn'. unfold has_node, upd_node in Hn'. cbn [g_nodes] in Hn'. exact (eq_true_false_abs _ Hn' Hn2). }
    assert (Hne : root <> next).
    { intros E. subst next. apply In_nids_has in Hroot. congruence. }
    exists (mkgraph (g_nodes g ++ [mknode next [] [] q]) (g_edges g) (g_t0 g) (g_t1 g)).
    split; [unfold add_node; cbn [n_id]; rewrite Hn; reflexivity|].
    set (g1 := mkgraph (g_nodes g ++ [mknode next [] [] q]) (g_edges g) (g_t0 g) (g_t1 g)).
    destruct (add_connect_edge g1 e) as [g'|] eqn:Hc.
    - destruct (add_connect_edge_eq R g1 g' e Hc) as [_ ->]. f_equal. unfold g1. cbn [g_nodes g_edges g_t0 g_t1]. f_equal.
      rewrite map_app. f_equal.
      + apply map_ext_in. intros n Hin.
        assert (Hid : n_id n <> next).
        { intros E. apply (proj2 (not_true_iff_false _) Hn). apply In_nids_has. rewrite <- E. apply in_map. exact Hin. }
        unfold conn. change (e_to e) with next. change (e_from e) with root. change (e_id e) with eid.
        destruct (Z.eqb_spec (n_id n) next) as [|_]; [contradiction|].
        destruct n as [i a b q']. cbn [n_id n_in n_out n_q]. rewrite app_nil_r.
        destruct (i =? root); cbn [node_add_eid n_id n_in n_out n_q]; rewrite ?app_nil_r; reflexivity.
      + cbn [map]. unfold conn. change (e_to e) with next. change (e_from e) with root. change (e_id e) with eid.
        cbn [n_id n_in n_out n_q]. rewrite Z.eqb_refl.
        destruct (Z.eqb_spec next root) as [E|_]; [symmetry in E; contradiction|]. reflexivity.
    - exfalso. unfold add_connect_edge, add_edge in Hc.
      change (has_edge_id g1 (e_id e)) with (has_edge_id g eid) in Hc. rewrite He in Hc. discriminate.
  Qed.

  (* ---------- _insert_opchain (direction 1) ---------- *)
  Lemma chain_loop_len ocq : forall (g : graph) cur nn en g1 cur1 nn1 en1 lv,
    LW g lv -> In cur (nids R g) -> lv cur + Z.of_nat (length ocq) <= Lz ->
    opchain_loop 1 g cur nn en ocq = Ok (g1, cur1, nn1, en1) ->
    exists lv1, LW g1 lv1 /\ Agree g lv lv1 /\ Ext g g1 /\ In cur1 (nids R g1) /\
      lv1 cur1 = lv cur + Z.of_nat (length ocq) /\
      Fresh g g1 (fun x => hasin R g1 x /\ (x = cur1 \/ hasout R g1 x)) /\
      ((ocq = [] /\ cur1 = cur) \/ (hasout R g1 cur /\ ~ In cur1 (nids R g))).
  Proof.
    induction ocq as [|[[oid c] q] rest IH]; intros g cur nn en g1 cur1 nn1 en1 lv HW Hcur Hlen H.
    - simpl in H. inversion H; subst. exists lv.
      split; [exact HW|]. split; [apply Agree_refl|]. split; [apply Ext_refl|]. split; [exact Hcur|].
      split; [simpl; lia|]. split; [intros x Hx Hn; contradiction|]. left. split; reflexivity.
    - rewrite opchain_loop_cons in H.
      apply bind_ok in H. destruct H as [ga [Ha H]]. apply of_opt_ok in Ha.
      apply bind_ok in H. destruct H as [gb [Hb H]]. apply of_opt_ok in Hb.
      pose proof (LW_bounds g lv cur HW Hcur) as Hbc.
      cbn [length] in Hlen. rewrite Nat2Z.inj_succ in Hlen.
      destruct (LW_add_node g ga lv nn q (lv cur + 1) HW ltac:(lia) Ha) as [lva [HWa [Aga [Ea [Idsa [Hfr Hnn]]]]]].
      assert (Hcura : In cur (nids R ga)) by (eapply Ext_nids; eauto).
      assert (Hnna : In nn (nids R ga)) by (rewrite Idsa; apply in_or_app; right; left; reflexivity).
      destruct (LW_add_edge ga gb lva en cur nn [(oid, c)] HWa Hcura Hnna) as [HWb [Eb [Idsb [Houtb Hinb]]]].
      { rewrite Hnn, (Aga _ Hcur). reflexivity. }
      { exact Hb. }
      assert (Hnnb : In nn (nids R gb)) by (rewrite Idsb; exact Hnna).
      destruct (IH gb nn (nn + 1) (en + 1) g1 cur1 nn1 en1 lva HWb Hnnb ltac:(lia) H)
        as [lv1 [HW1 [Ag1 [E1 [Hc1 [Hl1 [F1 Hlast]]]]]]].
      assert (Egb : Ext g gb) by (eapply Ext_trans; eauto).
      exists lv1. split; [exact HW1|]. split; [|split; [|split; [exact Hc1|split; [|split]]]].
      + eapply Agree_trans; [exact Egb| |exact Ag1]. exact Aga.
      + eapply Ext_trans; eauto.
      + rewrite Hl1, Hnn. cbn [length]. rewrite Nat2Z.inj_succ. lia.
      + intros x Hx Hn. destruct (nids_dec gb x) as [Hi|Hi].
        * rewrite Idsb, Idsa in Hi. apply in_app_or in Hi. destruct Hi as [Hi|[<-|[]]]; [contradiction|].
          split; [eapply Ext_in; eauto|]. destruct Hlast as [[_ ->]|[Ho _]]; [left; reflexivity|right; exact Ho].
        * apply F1; assumption.
      + right. split; [eapply Ext_out; eauto|]. destruct Hlast as [[_ ->]|[_ Hni]]; [exact Hfr|].
        intros Hi. apply Hni. eapply Ext_nids; eauto.
  Qed.

  Lemma identities_len (g g' : graph) a b n lv :
    LW g lv -> lv b = lv a + n -> insert_identities g a b n oid_id = Ok g' ->
    exists lv', LW g' lv' /\ Agree g lv lv' /\ Ext g g' /\ Fresh g g' (InOut g') /\ hasout R g' a /\ hasin R g' b.
  Proof.
    intros HW Hl H. unfold insert_identities, insert_opchain in H.
    destruct (has_node g a) eqn:Ha; cbn [negb] in H; [|discriminate H].
    destruct (has_node g b) eqn:Hb; cbn [negb] in H; [|discriminate H].
    rewrite !repeat_length, Nat.eqb_refl in H. cbn [negb] in H.
    destruct (Nat.eqb_spec (Z.to_nat n) (S (Z.to_nat (n - 1)))) as [En|]; cbn [negb] in H; [|discriminate H].
    remember (Z.to_nat (n - 1)) as k eqn:Ek. rewrite En in H.
    rewrite !removelast_repeat, !last_repeat in H.
    apply bind_ok in H. destruct H as [m [_ H]].
    apply bind_ok in H. destruct H as [[[[g1 cur] nn'] eid] [Hloop H]]. apply of_opt_ok in H.
    apply In_nids_has in Ha. apply In_nids_has in Hb.
    pose proof (LW_bounds g lv a HW Ha) as Hba. pose proof (LW_bounds g lv b HW Hb) as Hbb.
    assert (Hk : Z.of_nat k = n - 1) by lia.
    assert (Hlen : length (combine (combine (repeat oid_id k) (repeat (k1 R) k)) (repeat 0 k)) = k).
    { rewrite !combine_length, !repeat_length, !Nat.min_id. reflexivity. }
    destruct (chain_loop_len _ g a (m + 1) (max_eid g + 1) g1 cur nn' eid lv HW Ha ltac:(rewrite Hlen; lia) Hloop)
      as [lv1 [HW1 [Ag1 [E1 [Hc1 [Hl1 [F1 Hlast]]]]]]].
    rewrite Hlen in Hl1.
    assert (Hb1 : In b (nids R g1)) by (eapply Ext_nids; eauto).
    destruct (LW_add_edge g1 g' lv1 eid cur b [(oid_id, k1 R)] HW1 Hc1 Hb1) as [HW' [E' [Ids' [Hout' Hin']]]].
    { rewrite (Ag1 _ Hb), Hl1. lia. }
    { exact H. }
    exists lv1. split; [exact HW'|]. split; [exact Ag1|]. split; [eapply Ext_trans; eauto|]. split; [|split; [|exact Hin']].
    - intros x Hx Hn. rewrite Ids' in Hx. destruct (F1 x Hx Hn) as [Hi Ho].
      split; [eapply Ext_in; eauto|]. destruct Ho as [->|Ho]; [exact Hout'|eapply Ext_out; eauto].
    - destruct Hlast as [[_ <-]|[Ho _]]; [exact Hout'|eapply Ext_out; eauto].
  Qed.

  (* ---------- one child: edge root -> next, next a new node or the end node ---------- *)
  Lemma child_len (g g2 g3 : graph) lv root td next oid (c : R) q :
    LW g lv -> In root (nids R g) -> lv root + td = Lz -> 0 < td ->
    (if 1 <? td then bind (max_nid g) (fun m => Ok (m + 1)) else Ok (g_t1 g)) = Ok next ->
    of_opt EValue (add_edge (upd_node g root (node_add_eid (max_eid g + 1) 1))
                            (new_edge (max_eid g + 1) root next [(oid, c)])) = Ok g2 ->
    (if 1 <? td
     then of_opt EValue (add_node g2 (mknode next [max_eid g + 1] [] q))
     else if has_node g2 next then Ok (upd_node g2 next (node_add_eid (max_eid g + 1) 0))
          else Err EKey) = Ok g3 ->
    exists lv3, LW g3 lv3 /\ Agree g lv lv3 /\ Ext g g3 /\ hasout R g3 root /\ hasin R g3 next /\
                lv3 next + (td - 1) = Lz /\ Fresh g g3 (fun x => x = next).
  Proof.
    intros HW Hroot Hl Htd H0 Hadd Hnode. apply of_opt_ok in Hadd.
    pose proof (LW_bounds g lv root HW Hroot) as Hbr.
    destruct (Z.ltb_spec 1 td) as [Hgt|Hle].
    - apply of_opt_ok in Hnode.
      destruct (child_new g g2 g3 root next _ _ q Hroot Hadd Hnode) as [g1 [Hn He]].
      destruct (LW_add_node g g1 lv next q (lv root + 1) HW ltac:(lia) Hn) as [lva [HWa [Aga [Ea [Idsa [Hfr Hnn]]]]]].
      assert (Hroota : In root (nids R g1)) by (eapply Ext_nids; eauto).
      assert (Hnexta : In next (nids R g1)) by (rewrite Idsa; apply in_or_app; right; left; reflexivity).
      destruct (LW_add_edge g1 g3 lva (max_eid g + 1) root next [(oid, c)] HWa Hroota Hnexta) as [HW3 [E3 [Ids3 [Hout3 Hin3]]]].
      { rewrite Hnn, (Aga _ Hroot). reflexivity. }
      { exact He. }
      exists lva. split; [exact HW3|]. split; [exact Aga|]. split; [eapply Ext_trans; eauto|].
      split; [exact Hout3|]. split; [exact Hin3|]. split; [rewrite Hnn; lia|].
      intros x Hx Hn'. rewrite Ids3, Idsa in Hx. apply in_app_or in Hx. destruct Hx as [Hx|[<-|[]]]; [contradiction|reflexivity].
    - inversion H0; subst next; clear H0.
      destruct (has_node g2 (g_t1 g)) eqn:Hh; [|discriminate Hnode]. inversion Hnode; subst g3; clear Hnode.
      pose proof (child_old g g2 root (g_t1 g) _ _ Hadd) as He.
      destruct HW as [W B]. pose proof (lb_t1 R g lv Lz B) as Ht1. pose proof (lb_l1 R g lv Lz B) as Hl1.
      destruct (LW_add_edge g _ lv (max_eid g + 1) root (g_t1 g) [(oid, c)] (conj W B) Hroot Ht1 ltac:(lia) He) as [HW3 [E3 [Ids3 [Hout3 Hin3]]]].
      exists lv. split; [exact HW3|]. split; [apply Agree_refl|]. split; [exact E3|].
      split; [exact Hout3|]. split; [exact Hin3|]. split; [lia|].
      intros x Hx Hn'. rewrite Ids3 in Hx. contradiction.
  Qed.

  (* ---------- _insert_subtree ---------- *)
  Definition SubSpec (t : tree) : Prop := forall (g : graph) root td g' lv,
    LW g lv -> lv root + td = Lz -> insert_subtree oid_id t g root td = Ok g' ->
    exists lv', LW g' lv' /\ Agree g lv lv' /\ Ext g g' /\ Fresh g g' (InOut g') /\
                (root = g_t1 g \/ (hasout R g' root /\ hasin R g' (g_t1 g))).

  Lemma children_len root td ch : Forall (fun p => SubSpec (snd p)) ch -> forall (g g' : graph) lv,
    LW g lv -> In root (nids R g) -> lv root + td = Lz ->
    ins_children R oid_id root td ch g = Ok g' ->
    exists lv', LW g' lv' /\ Agree g lv lv' /\ Ext g g' /\ Fresh g g' (InOut g') /\
                (ch = [] \/ (hasout R g' root /\ hasin R g' (g_t1 g))).
  Proof.
    induction 1 as [|[[oid c] s] rest Hs _ IH]; intros g g' lv HW Hroot Hl H.
    - simpl in H. inversion H; subst g'. exists lv.
      split; [exact HW|]. split; [apply Agree_refl|]. split; [apply Ext_refl|].
      split; [intros x Hx Hn; contradiction|]. left. reflexivity.
    - cbn [snd] in Hs. rewrite ins_children_cons in H.
      apply bind_ok in H. destruct H as [next [H0 H]].
      apply bind_ok in H. destruct H as [g2 [Hadd H]].
      apply bind_ok in H. destruct H as [g3 [Hnode H]].
      apply bind_ok in H. destruct H as [g4 [Hsub Hrest]].
      assert (Htd : 0 < td) by (apply subtree_td_nonneg in Hsub; lia).
      destruct (child_len g g2 g3 lv root td next oid c (tree_q s) HW Hroot Hl Htd H0 Hadd Hnode)
        as [lv3 [HW3 [Ag3 [E3 [Hout3 [Hin3 [Hl3 F3]]]]]]].
      destruct (Hs g3 next (td - 1) g4 lv3 HW3 Hl3 Hsub) as [lv4 [HW4 [Ag4 [E4 [F4 Hlast4]]]]].
      rewrite (Ext_t1 _ _ E3) in Hlast4.
      assert (E04 : Ext g g4) by (eapply Ext_trans; eauto).
      assert (A04 : Agree g lv lv4) by (eapply (Agree_trans g g3); [exact E3|exact Ag3|exact Ag4]).
      assert (Hroot4 : In root (nids R g4)) by (eapply Ext_nids; eauto).
      assert (Ht1 : In (g_t1 g) (nids R g)) by (destruct HW as [_ B]; apply (lb_t1 R g lv Lz B)).
      assert (Hin4 : hasin R g4 (g_t1 g)).
      { destruct Hlast4 as [<-|[_ Hi]]; [exact (Ext_in _ _ _ E4 Hin3)|exact Hi]. }
      assert (F04 : Fresh g g4 (InOut g4)).
      { intros x Hx Hn. destruct (nids_dec g3 x) as [Hi|Hi].
        - pose proof (F3 x Hi Hn) as Ex. cbn beta in Ex. subst x. split; [exact (Ext_in _ _ _ E4 Hin3)|].
          destruct Hlast4 as [Ee|[Ho _]]; [|exact Ho]. exfalso. apply Hn. rewrite Ee. exact Ht1.
        - apply F4; assumption. }
      destruct (IH g4 g' lv4 HW4 Hroot4) as [lv' [HW' [Ag' [E' [F' _]]]]].
      { rewrite (A04 _ Hroot). exact Hl. }
      { exact Hrest. }
      exists lv'. split; [exact HW'|]. split; [exact (Agree_trans g g4 lv lv4 lv' E04 A04 Ag')|].
      split; [exact (Ext_trans _ _ _ E04 E')|].
      split.
      + apply (Fresh_trans g g4 g' (InOut g4) (InOut g') (InOut g') F04 F'); [|auto].
        intros x Hx. exact (Ext_InOut _ _ _ E' Hx).
      + right. split; [exact (Ext_out _ _ _ E' (Ext_out _ _ _ E4 Hout3))|exact (Ext_in _ _ _ E' Hin4)].
  Qed.

  Lemma subtree_len : forall t, SubSpec t.
  Proof.
    apply (tree_ind' R). intros q ch HF g root td g' lv HW Hl H.
    rewrite insert_subtree_eq in H.
    destruct (Z.ltb_spec td 0) as [|Htd0]; [discriminate H|].
    destruct (find_node g root) as [node|] eqn:Hf; [|discriminate H].
    destruct (negb (n_q node =? q)); [discriminate H|].
    apply find_node_Some in Hf. destruct Hf as [Hin Hid].
    assert (Hroot : In root (nids R g)) by (unfold nids; rewrite <- Hid; apply in_map; exact Hin).
    destruct ch as [|p r].
    - destruct (Z.ltb_spec 0 td) as [Hpos|Hz].
      + destruct (identities_len g g' root (g_t1 g) td lv HW) as [lv' [HW' [Ag' [E' [F' [Ho Hi]]]]]].
        { destruct HW as [_ B]. rewrite (lb_l1 R g lv Lz B). lia. }
        { exact H. }
        exists lv'. split; [exact HW'|]. split; [exact Ag'|]. split; [exact E'|]. split; [exact F'|]. right. split; assumption.
      + destruct (Z.eqb_spec root (g_t1 g)) as [E|]; [|discriminate H]. inversion H; subst g'.
        exists lv. split; [exact HW|]. split; [apply Agree_refl|]. split; [apply Ext_refl|].
        split; [intros x Hx Hn; contradiction|]. left. exact E.
    - destruct (children_len root td (p :: r) HF g g' lv HW Hroot Hl H) as [lv' [HW' [Ag' [E' [F' Hlast]]]]].
      exists lv'. split; [exact HW'|]. split; [exact Ag'|]. split; [exact E'|]. split; [exact F'|].
      destruct Hlast as [Hnil|Hlast]; [discriminate Hnil|]. right. exact Hlast.
  Qed.

  (* ---------- from_optrees: the loop over the trees ---------- *)
  Definition TS (g : graph) : Prop := exists lv, LW g lv /\ g_t0 g = 0 /\ g_t1 g = 1 /\
    (forall x, In x (nids R g) -> x <> 0 -> x <> 1 -> InOut g x).
  Definition Started (g : graph) : Prop := hasout R g 0 /\ hasin R g 1.

  Lemma optree_len (g g' : graph) (t : optree R) :
    TS g -> 0 <= ot_istart t -> insert_optree oid_id Lz (Ok g) t = Ok g' ->
    TS g' /\ Started g' /\ Ext g g'.
  Proof.
    intros [lv [HW [T0 [T1 Hio]]]] Hs0 H.
    unfold insert_optree in H. cbn [bind] in H.
    apply bind_ok in H. destruct H as [[gs root] [Hgr Hsub]]. cbn [fst snd] in Hsub.
    set (s := ot_istart t) in *.
    pose proof (subtree_td_nonneg _ _ _ _ _ _ _ Hsub) as Htd.
    pose proof HW as [W B].
    assert (H0in : In 0 (nids R g)) by (rewrite <- T0; apply (lb_t0 R g lv Lz B)).
    assert (H1in : In 1 (nids R g)) by (rewrite <- T1; apply (lb_t1 R g lv Lz B)).
    assert (Hl0 : lv 0 = 0) by (rewrite <- T0 at 1; apply (lb_l0 R g lv Lz B)).
    destruct (Z.ltb_spec 0 s) as [Hpos|Hnp].
    - apply bind_ok in Hgr. destruct Hgr as [m [_ Hgr]].
      apply bind_ok in Hgr. destruct Hgr as [g1 [Hadd Hgr]]. apply of_opt_ok in Hadd.
      apply bind_ok in Hgr. destruct Hgr as [g2 [Hid Hgr]]. inversion Hgr; subst gs root. clear Hgr.
      set (root := m + 1) in *.
      destruct (LW_add_node g g1 lv root _ s HW ltac:(lia) Hadd) as [lva [HWa [Aga [Ea [Idsa [Hfr Hnn]]]]]].
      destruct (identities_len g1 g2 0 root s lva HWa) as [lv2 [HW2 [Ag2 [E2 [F2 [Ho2 Hi2]]]]]].
      { rewrite Hnn, (Aga _ H0in), Hl0. lia. }
      { exact Hid. }
      assert (Hroot1 : In root (nids R g1)) by (rewrite Idsa; apply in_or_app; right; left; reflexivity).
      destruct (subtree_len (ot_root t) g2 root (Lz - s) g' lv2 HW2) as [lv' [HW' [Ag' [E' [F' Hlast]]]]].
      { rewrite (Ag2 _ Hroot1), Hnn. lia. }
      { exact Hsub. }
      assert (E02 : Ext g g2) by (exact (Ext_trans _ _ _ Ea E2)).
      assert (E0' : Ext g g') by (exact (Ext_trans _ _ _ E02 E')).
      assert (T12 : g_t1 g2 = 1) by (rewrite (Ext_t1 _ _ E02); exact T1).
      rewrite T12 in Hlast.
      assert (Hr1 : root <> 1) by (intros E; apply Hfr; rewrite E; exact H1in).
      destruct Hlast as [E|[Hor Hi1]]; [contradiction|].
      split; [|split; [|exact E0']].
      + exists lv'. split; [exact HW'|]. split; [rewrite (Ext_t0 _ _ E0'); exact T0|].
        split; [rewrite (Ext_t1 _ _ E0'); exact T1|].
        intros x Hx Hx0 Hx1. destruct (nids_dec g x) as [Hg|Hg].
        * exact (Ext_InOut _ _ _ E0' (Hio x Hg Hx0 Hx1)).
        * destruct (nids_dec g1 x) as [Hg1|Hg1].
          { rewrite Idsa in Hg1. apply in_app_or in Hg1. destruct Hg1 as [Hg1|[<-|[]]]; [contradiction|].
            split; [exact (Ext_in _ _ _ E' Hi2)|exact Hor]. }
          destruct (nids_dec g2 x) as [Hg2|Hg2].
          { exact (Ext_InOut _ _ _ E' (F2 x Hg2 Hg1)). }
          exact (F' x Hx Hg2).
      + split; [exact (Ext_out _ _ _ E' Ho2)|exact Hi1].
    - inversion Hgr; subst gs root. clear Hgr.
      destruct (subtree_len (ot_root t) g 0 (Lz - s) g' lv HW) as [lv' [HW' [Ag' [E' [F' Hlast]]]]].
      { rewrite Hl0. lia. }
      { exact Hsub. }
      rewrite T1 in Hlast. destruct Hlast as [E|[Ho Hi]]; [discriminate E|].
      split; [|split; [split; assumption|exact E']].
      exists lv'. split; [exact HW'|]. split; [rewrite (Ext_t0 _ _ E'); exact T0|].
      split; [rewrite (Ext_t1 _ _ E'); exact T1|].
      intros x Hx Hx0 Hx1. destruct (nids_dec g x) as [Hg|Hg].
      + exact (Ext_InOut _ _ _ E' (Hio x Hg Hx0 Hx1)).
      + exact (F' x Hx Hg).
  Qed.

  Lemma fold_len (ts : list (optree R)) : forall (g g' : graph),
    TS g -> Forall (fun t => 0 <= ot_istart t) ts ->
    fold_left (insert_optree oid_id Lz) ts (Ok g) = Ok g' -> TS g' /\ Ext g g'.
  Proof.
    induction ts as [|t ts IH]; intros g g' HT Hs H.
    - simpl in H. inversion H; subst g'. split; [exact HT|apply Ext_refl].
    - change (fold_left (insert_optree oid_id Lz) ts (insert_optree oid_id Lz (Ok g) t) = Ok g') in H.
      destruct (insert_optree oid_id Lz (Ok g) t) as [g1|e] eqn:E1; [|rewrite fold_err in H; discriminate H].
      inversion Hs as [|t' ts' Hs1 Hs2]; subst.
      destruct (optree_len g g1 t HT Hs1 E1) as [HT1 [_ Ex1]].
      destruct (IH g1 g' HT1 Hs2 H) as [HT' Ex']. split; [exact HT'|exact (Ext_trans _ _ _ Ex1 Ex')].
  Qed.

  Lemma TS_init : TS (g_init R).
  Proof.
    exists (fun x => if x =? 1 then Lz else 0). split; [split|].
    - constructor.
      + cbn. constructor; [intros [H|[]]; discriminate H|]. constructor; [intros []|constructor].
      + cbn. constructor.
      + split; [|split]; cbn [g_init g_nodes g_edges].
        * intros n [<-|[<-|[]]]; constructor.
        * intros n eid [<-|[<-|[]]] [].
        * intros e [].
      + split; [|split]; cbn [g_init g_nodes g_edges].
        * intros n [<-|[<-|[]]]; constructor.
        * intros n eid [<-|[<-|[]]] [].
        * intros e [].
      + intros e [].
      + intros e [].
    - constructor; cbn.
      + left; reflexivity.
      + right; left; reflexivity.
      + reflexivity.
      + reflexivity.
      + intros x [<-|[<-|[]]]; cbn; lia.
    - split; [reflexivity|]. split; [reflexivity|].
      intros x [<-|[<-|[]]] H0 H1; exfalso; [apply H0|apply H1]; reflexivity.
  Qed.

  Lemma from_optrees_raw_built_sec (ts : list (optree R)) (g : graph) :
    ts <> [] -> Forall (fun t => 0 <= ot_istart t) ts ->
    from_optrees_raw ts Lz oid_id = Some g -> Built R g L.
  Proof.
    intros Hne Hs. unfold from_optrees_raw, from_optrees_raw_r. fold (g_init R).
    destruct ts as [|t ts]; [congruence|].
    change (fold_left (insert_optree oid_id Lz) (t :: ts) (Ok (g_init R)))
      with (fold_left (insert_optree oid_id Lz) ts (insert_optree oid_id Lz (Ok (g_init R)) t)).
    destruct (insert_optree oid_id Lz (Ok (g_init R)) t) as [g1|e] eqn:E1; [|rewrite fold_err; discriminate].
    inversion Hs as [|t' ts' Hs1 Hs2]; subst.
    destruct (optree_len (g_init R) g1 t TS_init Hs1 E1) as [HT1 [[So Si] _]].
    destruct (fold_left (insert_optree oid_id Lz) ts (Ok g1)) as [g'|e] eqn:E; cbn [to_opt]; intros H; [|discriminate H].
    inversion H; subst g'. destruct (fold_len ts g1 g HT1 Hs2 E) as [[lv [[W B] [T0 [T1 Hio]]]] Ex].
    exists lv. split; [exact W|]. split; [exact B|]. split.
    - intros x Hx Hx0. rewrite T0 in Hx0. destruct (Z.eq_dec x 1) as [->|Hx1].
      + exact (Ext_in _ _ _ Ex Si).
      + apply (Hio x Hx Hx0 Hx1).
    - intros x Hx Hx1. rewrite T1 in Hx1. destruct (Z.eq_dec x 0) as [->|Hx0].
      + exact (Ext_out _ _ _ Ex So).
      + apply (Hio x Hx Hx0 Hx1).
  Qed.
End LenTree.

Theorem from_optrees_raw_built (R : cring) (ts : list (optree R)) (L : nat) (oid_id : Z) (g : graph R) :
  ts <> [] -> Forall (fun t => 0 <= ot_istart t) ts ->
  from_optrees_raw ts (Z.of_nat L) oid_id = Some g -> Built R g L.
Proof. apply from_optrees_raw_built_sec. Qed.

Theorem from_optrees_raw_consistent (R : cring) (ts : list (optree R)) (L : nat) (oid_id : Z) (g : graph R) fuel b :
  Forall (fun t => 0 <= ot_istart t) ts -> from_optrees_raw ts (Z.of_nat L) oid_id = Some g ->
  is_consistent_fuel fuel g = Some b -> b = true.
Proof.
  intros Hs H Hc. destruct ts as [|t ts].
  - cbn in H. inversion H; subst g; clear H.
    destruct fuel as [|[|f]]; cbn in Hc; [discriminate Hc| |]; inversion Hc; reflexivity.
  - apply (Built_consistent R g L fuel b); [|exact Hc].
    apply (from_optrees_raw_built R (t :: ts) L oid_id g); [discriminate|exact Hs|exact H].
Qed.

(* non-vacuity: two trees (one starting at site 1, one at site 0 with a branching root) in a system of 3 sites *)
Example from_optrees_raw_built_example :
  exists g, from_optrees_raw [mkoptree (@TNode Zring 0 [(5, 2, @TNode Zring 0 [])]) 1;
                              mkoptree (@TNode Zring 0 [(3, 1, @TNode Zring 0 [(4, 1, @TNode Zring 0 [])]);
                                                         (6, 7, @TNode Zring 0 [])]) 0] (Z.of_nat 3) 0 = Some g /\
            glength g = Some 3%nat /\ is_consistent_fuel 100 g = Some true.
Proof. eexists. split; [vm_compute; reflexivity|]. vm_compute. auto. Qed.

Print Assumptions from_optrees_raw_built.
Print Assumptions from_optrees_raw_consistent.
