(* C16, part 3: graph isomorphisms (renaming of node ids by rho and of edge ids by sigma, dictionary and
   edge-id-list orders up to permutation) preserve well-formedness and the denotation.
   rename_node_id, rename_edge_id and the id-disjointness phase of add are instances. *)
From Coq Require Import ZArith List Lia Bool Permutation Ring.
From PT Require Import Base.Scalar Base.BigSum Model.OpGraph Model.Rewrites Proofs.RewritesBase.
Import ListNotations.
Open Scope Z_scope.

Lemma NoDup_map_inj_in {A B} (f : A -> B) (l : list A) :
  (forall x y, In x l -> In y l -> f x = f y -> x = y) -> NoDup l -> NoDup (map f l).
Proof.
  induction l as [|a l IH]; simpl; intros Hinj Hnd; [constructor|]. inversion Hnd; subst.
  constructor.
  - intros Hin. apply in_map_iff in Hin. destruct Hin as [b [Hb Hbl]].
    assert (b = a) by (apply Hinj; auto). subst b. contradiction.
  - apply IH; auto.
Qed.

Section Iso.
  Variable R : cring.
  Add Ring Rring_rwiso : (k_rt R).
  Notation graph := (graph R).
  Notation gedge := (gedge R).
  Notation "0r" := (k0 R). Notation "1r" := (k1 R).
  Infix "*r" := (kmul R) (at level 40, left associativity).

  Definition ren_edge (rho sigma : Z -> Z) (e : gedge) : gedge :=
    mkedge (sigma (e_id e)) (rho (e_from e)) (rho (e_to e)) (e_opics e).
  Definition nrel (rho sigma : Z -> Z) (n n' : gnode) : Prop :=
    n_id n' = rho (n_id n) /\ Permutation (n_in n') (map sigma (n_in n)) /\
    Permutation (n_out n') (map sigma (n_out n)).
  Lemma nrel_eids rho sigma n n' d : nrel rho sigma n n' ->
    Permutation (node_eids n' d) (map sigma (node_eids n d)).
  Proof. intros [_ [A B]]. destruct d; simpl; assumption. Qed.

  Record Iso (rho sigma : Z -> Z) (g g' : graph) : Prop := mkIso {
    iso_inj_n : forall x y, In x (nids R g) -> In y (nids R g) -> rho x = rho y -> x = y;
    iso_inj_e : forall x y, In x (eids R g) -> In y (eids R g) -> sigma x = sigma y -> x = y;
    iso_nids : Permutation (nids R g') (map rho (nids R g));
    iso_fwd : forall n, In n (g_nodes g) -> exists n', In n' (g_nodes g') /\ nrel rho sigma n n';
    iso_bwd : forall n', In n' (g_nodes g') -> exists n, In n (g_nodes g) /\ nrel rho sigma n n';
    iso_edges : Permutation (g_edges g') (map (ren_edge rho sigma) (g_edges g));
    iso_t0 : g_t0 g' = rho (g_t0 g);
    iso_t1 : g_t1 g' = rho (g_t1 g) }.

  Lemma end_d_ren rho sigma d e : end_d R d (ren_edge rho sigma e) = rho (end_d R d e).
  Proof. destruct d; reflexivity. Qed.
  Lemma end_o_ren rho sigma d e : end_o R d (ren_edge rho sigma e) = rho (end_o R d e).
  Proof. destruct d; reflexivity. Qed.

  (* FE under an end-point renaming that is injective on a set S containing everything in sight *)
  Lemma FE_rename (S : Z -> Prop) rho sigma (E : list gedge) tend d :
    (forall x y, S x -> S y -> rho x = rho y -> x = y) ->
    (forall e, In e E -> S (e_from e) /\ S (e_to e)) -> S tend ->
    forall w n, S n -> FE R (map (ren_edge rho sigma) E) (rho tend) d w (rho n) = FE R E tend d w n.
  Proof.
    intros Hinj HE Ht. induction w as [|o w IH]; intros n Hn; simpl.
    - destruct (n =? tend) eqn:E1.
      + apply Z.eqb_eq in E1. subst. rewrite Z.eqb_refl. reflexivity.
      + destruct (rho n =? rho tend) eqn:E2; [|reflexivity]. apply Z.eqb_eq in E2.
        apply Hinj in E2; auto. apply Z.eqb_neq in E1. contradiction.
    - rewrite suml_map. apply suml_ext. intros e He. rewrite end_d_ren, end_o_ren.
      assert (Sd : S (end_d R d e)) by (destruct d; simpl; apply (HE e He)).
      assert (So : S (end_o R d e)) by (destruct d; simpl; apply (HE e He)).
      destruct (end_d R d e =? n) eqn:E1.
      + apply Z.eqb_eq in E1. rewrite E1, Z.eqb_refl. simpl. rewrite IH by exact So. reflexivity.
      + destruct (rho (end_d R d e) =? rho n) eqn:E2; [|reflexivity]. apply Z.eqb_eq in E2.
        apply Hinj in E2; auto. apply Z.eqb_neq in E1. contradiction.
  Qed.

  Lemma ends_in_nids (g : graph) e : WF R g -> In e (g_edges g) ->
    In (e_from e) (nids R g) /\ In (e_to e) (nids R g).
  Proof.
    intros W He. split.
    - destruct (wf_ref0 R g W) as [_ [_ C]]. destruct (C e He) as [n [Hn [Hid _]]].
      simpl in Hid. rewrite <- Hid. apply in_map. exact Hn.
    - destruct (wf_ref1 R g W) as [_ [_ C]]. destruct (C e He) as [n [Hn [Hid _]]].
      simpl in Hid. rewrite <- Hid. apply in_map. exact Hn.
  Qed.
  Lemma terminal_in_nids (g : graph) d : WF R g -> (d <= 1)%nat -> In (terminal g d) (nids R g).
  Proof.
    intros W Hd. destruct d as [|[|d]]; try lia.
    - destruct (wf_term0 R g W) as [n [Hn [Hid _]]]. rewrite <- Hid. apply in_map. exact Hn.
    - destruct (wf_term1 R g W) as [n [Hn [Hid _]]]. rewrite <- Hid. apply in_map. exact Hn.
  Qed.
  Lemma list_eids_in (g : graph) n d x : WF R g -> (d <= 1)%nat -> In n (g_nodes g) ->
    In x (node_eids n d) -> In x (eids R g).
  Proof.
    intros W Hd Hn Hx. destruct d as [|[|d]]; try lia.
    - destruct (wf_ref1 R g W) as [_ [B _]]. destruct (B n x Hn Hx) as [e [He [Hid _]]].
      rewrite <- Hid. apply in_map. exact He.
    - destruct (wf_ref0 R g W) as [_ [B _]]. destruct (B n x Hn Hx) as [e [He [Hid _]]].
      rewrite <- Hid. apply in_map. exact He.
  Qed.

  Lemma iso_RefOK rho sigma g g' d : (d <= 1)%nat -> WF R g -> Iso rho sigma g g' -> RefOK R g' d.
  Proof.
    intros Hd W I. pose proof (wf_ref R g d W Hd) as [A [B C]].
    assert (Hd1 : (1 - d <= 1)%nat) by lia.
    split; [|split].
    - intros n' Hn'. destruct (iso_bwd _ _ _ _ I n' Hn') as [n [Hn Hrel]].
      apply (Permutation_NoDup (Permutation_sym (nrel_eids _ _ _ _ (1 - d) Hrel))).
      apply NoDup_map_inj_in; [|apply A; exact Hn].
      intros x y Hx Hy. apply (iso_inj_e _ _ _ _ I); eapply list_eids_in; eauto.
    - intros n' eid' Hn' Hin. destruct (iso_bwd _ _ _ _ I n' Hn') as [n [Hn Hrel]].
      apply (Permutation_in _ (nrel_eids _ _ _ _ (1 - d) Hrel)) in Hin.
      apply in_map_iff in Hin. destruct Hin as [eid [<- Hin]].
      destruct (B n eid Hn Hin) as [e [He [Hid Hend]]].
      exists (ren_edge rho sigma e). split; [|split].
      + apply (Permutation_in _ (Permutation_sym (iso_edges _ _ _ _ I))). apply in_map. exact He.
      + simpl. rewrite Hid. reflexivity.
      + rewrite end_d_ren, Hend. symmetry. apply Hrel.
    - intros e' He'. apply (Permutation_in _ (iso_edges _ _ _ _ I)) in He'.
      apply in_map_iff in He'. destruct He' as [e [<- He]].
      destruct (C e He) as [n [Hn [Hid Hin]]]. destruct (iso_fwd _ _ _ _ I n Hn) as [n' [Hn' Hrel]].
      exists n'. split; [exact Hn'|]. split.
      + rewrite end_d_ren, <- Hid. apply Hrel.
      + apply (Permutation_in _ (Permutation_sym (nrel_eids _ _ _ _ (1 - d) Hrel))).
        simpl. apply in_map. exact Hin.
  Qed.

  Lemma iso_terminal rho sigma (g g' : graph) d : Iso rho sigma g g' -> terminal g' d = rho (terminal g d).
  Proof. intros I. destruct d; simpl; [apply (iso_t0 _ _ _ _ I)|apply (iso_t1 _ _ _ _ I)]. Qed.

  Lemma iso_TermOK rho sigma g g' d : (d <= 1)%nat -> WF R g -> Iso rho sigma g g' -> TermOK R g' d.
  Proof.
    intros Hd W I.
    assert (T : TermOK R g d) by (destruct d as [|[|d]]; try lia; apply W).
    destruct T as [n [Hn [Hid Hl]]]. destruct (iso_fwd _ _ _ _ I n Hn) as [n' [Hn' Hrel]].
    exists n'. split; [exact Hn'|]. split.
    - rewrite (iso_terminal _ _ _ _ d I), <- Hid. apply Hrel.
    - pose proof (nrel_eids _ _ _ _ d Hrel) as P. rewrite Hl in P. simpl in P.
      apply Permutation_sym, Permutation_nil in P. exact P.
  Qed.

  Lemma iso_NoDangle rho sigma g g' d : (d <= 1)%nat -> WF R g -> Iso rho sigma g g' -> NoDangle R g' d.
  Proof.
    intros Hd W I n' Hn' Hne.
    assert (T : NoDangle R g d) by (destruct d as [|[|d]]; try lia; apply W).
    destruct (iso_bwd _ _ _ _ I n' Hn') as [n [Hn Hrel]].
    assert (Hne2 : n_id n <> terminal g d).
    { intros E. apply Hne. rewrite (iso_terminal _ _ _ _ d I), <- E. apply Hrel. }
    specialize (T n Hn Hne2). pose proof (nrel_eids _ _ _ _ d Hrel) as P.
    intros E. rewrite E in P. apply Permutation_nil in P. apply map_eq_nil in P. contradiction.
  Qed.

  Lemma iso_WF rho sigma g g' : WF R g -> Iso rho sigma g g' -> WF R g'.
  Proof.
    intros W I. constructor.
    - apply (Permutation_NoDup (Permutation_sym (iso_nids _ _ _ _ I))).
      apply NoDup_map_inj_in; [apply I|apply W].
    - unfold eids. apply (Permutation_NoDup (Permutation_sym (Permutation_map (@e_id R) (iso_edges _ _ _ _ I)))).
      rewrite map_map. simpl. rewrite <- (map_map (@e_id R) sigma).
      apply NoDup_map_inj_in; [apply I|apply W].
    - apply (iso_RefOK rho sigma g g' 0); auto.
    - apply (iso_RefOK rho sigma g g' 1); auto.
    - intros e' He'. apply (Permutation_in _ (iso_edges _ _ _ _ I)) in He'.
      apply in_map_iff in He'. destruct He' as [e [<- He]]. simpl. apply W. exact He.
    - apply (iso_TermOK rho sigma g g' 0); auto.
    - apply (iso_TermOK rho sigma g g' 1); auto.
    - apply (iso_NoDangle rho sigma g g' 0); auto.
    - apply (iso_NoDangle rho sigma g g' 1); auto.
    - destruct (wf_layered R g W) as [lv Hlv].
      set (inv := fun y => match find (fun x => rho x =? y) (nids R g) with Some x => x | None => 0 end).
      assert (Hinv : forall x, In x (nids R g) -> inv (rho x) = x).
      { intros x Hx. unfold inv. destruct (find (fun x0 => rho x0 =? rho x) (nids R g)) as [y|] eqn:F.
        - apply find_some in F. destruct F as [Hy E]. apply Z.eqb_eq in E. apply (iso_inj_n _ _ _ _ I); auto.
        - pose proof (find_none _ _ F x Hx) as E. simpl in E. rewrite Z.eqb_refl in E. discriminate. }
      exists (fun y => lv (inv y)). intros e' He'. apply (Permutation_in _ (iso_edges _ _ _ _ I)) in He'.
      apply in_map_iff in He'. destruct He' as [e [<- He]]. simpl.
      destruct (ends_in_nids g e W He) as [Hf Ht]. rewrite !Hinv by assumption. apply Hlv. exact He.
  Qed.

  Lemma iso_den rho sigma g g' w : WF R g -> Iso rho sigma g g' -> den g' w = den g w.
  Proof.
    intros W I. pose proof (iso_WF _ _ _ _ W I) as W'.
    rewrite (den_FE R g' w W'), (den_FE R g w W).
    rewrite (FE_perm R _ _ _ _ _ _ (iso_edges _ _ _ _ I)), (iso_t0 _ _ _ _ I), (iso_t1 _ _ _ _ I).
    apply (FE_rename (fun x => In x (nids R g))).
    - apply I.
    - intros e He. apply ends_in_nids; assumption.
    - apply (terminal_in_nids g 1 W). lia.
    - apply (terminal_in_nids g 0 W). lia.
  Qed.

  (* counts *)
  Lemma iso_counts rho sigma (g g' : graph) : Iso rho sigma g g' ->
    length (g_nodes g') = length (g_nodes g) /\ length (g_edges g') = length (g_edges g).
  Proof.
    intros I. split.
    - pose proof (Permutation_length (iso_nids _ _ _ _ I)) as P. unfold nids in P. rewrite !map_length in P. exact P.
    - pose proof (Permutation_length (iso_edges _ _ _ _ I)) as P. rewrite map_length in P. exact P.
  Qed.
End Iso.
