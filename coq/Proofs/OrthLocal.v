(* C01 — the reshapes of Model/Orthonormalize.v and the local QR step (left variant):
   shapes, Q-slabs times R reproduce the tensor, isometry, block sparsity of both updated tensors. *)
From Coq Require Import ZArith List Bool Lia Arith Ring.
From PT Require Import Base.Scalar Base.Field Base.BigSum Base.Mx Model.Tensor Model.BondOps Model.Orthonormalize.
From PT Require Import Proofs.BondOpsPerm Proofs.BondOpsLoop Proofs.BondOpsSpec Proofs.MPSOpsBase Proofs.MPSOpsShape.
From PT Require Import Proofs.OrthDefs Proofs.OrthQRExtra.
Import ListNotations.

(* ---------- charges ---------- *)
Lemma qflat_length qa qb : length (qflat qa qb) = length qa * length qb.
Proof.
  unfold qflat. induction qa as [|x qa IH]; simpl; [reflexivity|].
  rewrite app_length, map_length, IH. reflexivity.
Qed.

Lemma qflat_nth qa qb s a : s < length qa -> a < length qb ->
  nth (s * length qb + a) (qflat qa qb) 0%Z = (nth s qa 0 + nth a qb 0)%Z.
Proof.
  unfold qflat. revert s; induction qa as [|x qa IH]; intros s Hs Ha; simpl in *; [lia|].
  destruct s as [|s].
  - simpl. rewrite app_nth1 by (rewrite map_length; exact Ha).
    rewrite (nth_indep _ 0%Z (x + 0)%Z) by (rewrite map_length; exact Ha).
    rewrite (map_nth (fun b => (x + b)%Z) qb 0%Z a). reflexivity.
  - rewrite app_nth2 by (rewrite map_length; simpl; lia). rewrite map_length.
    replace (S s * length qb + a - length qb) with (s * length qb + a) by (simpl; lia).
    apply IH; [lia|exact Ha].
Qed.

Lemma zneg_length q : length (zneg q) = length q.
Proof. apply map_length. Qed.
Lemma zneg_nth q i : nth i (zneg q) 0%Z = (- nth i q 0)%Z.
Proof. unfold zneg. change 0%Z with (Z.opp 0) at 1. apply map_nth. Qed.
Lemma zneg_invol q : zneg (zneg q) = q.
Proof. unfold zneg. rewrite map_map. rewrite <- (map_id q) at 2. apply map_ext. intros; lia. Qed.

(* ---------- row index arithmetic ---------- *)
Lemma divmod_row s Dl a : a < Dl -> (s * Dl + a) / Dl = s /\ (s * Dl + a) mod Dl = a.
Proof.
  intros Ha. assert (Dl <> 0) by lia. split.
  - rewrite Nat.div_add_l by assumption. rewrite Nat.div_small by exact Ha. lia.
  - rewrite Nat.add_comm, Nat.mod_add by assumption. apply Nat.mod_small. exact Ha.
Qed.
Lemma row_split d Dl r : r < d * Dl -> exists s a, s < d /\ a < Dl /\ r = s * Dl + a.
Proof.
  intros Hr. assert (HD : Dl <> 0) by (intros ->; lia).
  exists (r / Dl), (r mod Dl). split; [apply Nat.div_lt_upper_bound; [exact HD|lia]|].
  split; [apply Nat.mod_upper_bound; exact HD|]. rewrite Nat.mul_comm. apply Nat.div_mod. exact HD.
Qed.

Section Local.
  Variable R : cring.
  Add Ring Rring_orthlocal : (k_rt R).
  Notation mx := (mx R).
  Notation site := (site R).
  Notation rO := (k0 R). Notation rI := (k1 R).
  Infix "*!" := (kmul R) (at level 40, left associativity).
  Notation cj := (kconj R).

  (* ---------- sums ---------- *)
  Lemma sumn_nonzero n (f : nat -> R) : sumn n f <> rO -> exists i, i < n /\ f i <> rO.
  Proof.
    induction n as [|n IH]; simpl; intros H; [exfalso; apply H; reflexivity|].
    destruct (keqb R (f n) rO) eqn:E.
    - apply keqb_spec in E. destruct IH as (i & Hi & Hf).
      + intros E0. apply H. rewrite E0, E. ring.
      + exists i. split; [lia|exact Hf].
    - exists n. split; [lia|]. apply keqb_false. exact E.
  Qed.
  Lemma mul_nonzero (a b : R) : a *! b <> rO -> a <> rO /\ b <> rO.
  Proof. intros H. split; intros E; apply H; rewrite E; ring. Qed.

  (* ---------- shapes ---------- *)
  Lemma site_shape_site_ok d Dl Dr (A : site) : site_shape d Dl Dr A = true -> site_ok d Dl Dr A.
  Proof.
    intros H. split; [eapply site_shape_length; eauto|]. intros s Hs. eapply site_shape_sel; eauto.
  Qed.
  Lemma site_ok_dims d Dl Dr (A : site) : 1 <= d -> site_ok d Dl Dr A -> sDl A = Dl /\ sDr A = Dr /\ length A = d.
  Proof. intros Hd [Hl H]. unfold sDl, sDr. destruct (H 0) as (_ & E1 & E2); [lia|]. auto. Qed.

  Lemma site_shape_map d Dl Dr (f : nat -> mx) :
    (forall s, s < d -> wfb (f s) = true /\ nr (f s) = Dl /\ nc (f s) = Dr) ->
    site_shape d Dl Dr (map f (seq 0 d)) = true.
  Proof.
    intros H. unfold site_shape. rewrite map_length, seq_length, Nat.eqb_refl. simpl.
    apply forallb_forall. intros M HM. apply in_map_iff in HM. destruct HM as (s & <- & Hs).
    apply in_seq in Hs. destruct (H s) as (Hw & Hr & Hc); [lia|]. rewrite Hw, Hr, Hc, !Nat.eqb_refl. reflexivity.
  Qed.
  Lemma site_shape_mx_site d Dl (Q : mx) : site_shape d Dl (nc Q) (mx_site d Dl Q) = true.
  Proof. unfold mx_site. apply site_shape_map. intros s _. split; [apply wfb_tab|split; reflexivity]. Qed.
  Lemma sel_mx_site d Dl (Q : mx) s : s < d -> sel (mx_site d Dl Q) s = tab Dl (nc Q) (fun a c => get Q (s * Dl + a) c).
  Proof. intros Hs. unfold sel, mx_site. exact (nth_map_seq (zeromx 0 0) d (fun s => tab Dl (nc Q) (fun a c => get Q (s * Dl + a) c)) s Hs). Qed.
  Lemma length_mx_site d Dl (Q : mx) : length (mx_site d Dl Q) = d.
  Proof. unfold mx_site. rewrite map_length, seq_length. reflexivity. Qed.

  Lemma sel_map (f : mx -> mx) (A : site) s : s < length A -> sel (map f A) s = f (sel A s).
  Proof.
    intros Hs. unfold sel. rewrite (nth_indep _ (zeromx 0 0) (f (zeromx 0 0))) by (rewrite map_length; exact Hs).
    apply map_nth.
  Qed.
  Lemma site_shape_lmul dn Da Dn (M : mx) (An : site) :
    site_shape dn Da Dn An = true -> site_shape dn (nr M) Dn (lmul M An) = true.
  Proof.
    unfold site_shape, lmul. rewrite !andb_true_iff, map_length, !forallb_forall. intros [Hl H]. split; [exact Hl|].
    intros X HX. apply in_map_iff in HX. destruct HX as (Y & <- & HY). specialize (H Y HY).
    rewrite !andb_true_iff, !Nat.eqb_eq in H. destruct H as [[_ _] Hc].
    rewrite nr_mulmx, nc_mulmx, Hc, !Nat.eqb_refl. unfold mulmx. rewrite wfb_tab. reflexivity.
  Qed.

  (* ---------- reshape (d, Dl, Dr) -> (d*Dl, Dr) ---------- *)
  Lemma nr_site_mx (A : site) : nr (site_mx A) = length A * sDl A. Proof. reflexivity. Qed.
  Lemma nc_site_mx (A : site) : nc (site_mx A) = sDr A. Proof. reflexivity. Qed.
  Lemma get_site_mx d Dl Dr (A : site) s a b : 1 <= d -> site_ok d Dl Dr A -> s < d -> a < Dl -> b < Dr ->
    get (site_mx A) (s * Dl + a) b = get (sel A s) a b.
  Proof.
    intros Hd HA Hs Ha Hb. destruct (site_ok_dims d Dl Dr A Hd HA) as (E1 & E2 & E3).
    unfold site_mx. rewrite E1, E2, E3. rewrite get_tab by (try nia; exact Hb).
    destruct (divmod_row s Dl a Ha) as [-> ->]. reflexivity.
  Qed.

  (* ---------- block sparsity: boolean <-> Prop ---------- *)
  Lemma site_qsparse_qsp qd ql qr (A : site) : site_qsparse qd ql qr A = true -> site_qsp qd ql qr A.
  Proof.
    unfold site_qsparse, site_qsp. intros H s a b Hs Ha Hb Hnz.
    rewrite forallb_forall in H. specialize (H s ltac:(apply in_seq; lia)).
    rewrite forallb_forall in H. specialize (H a ltac:(apply in_seq; lia)).
    rewrite forallb_forall in H. specialize (H b ltac:(apply in_seq; lia)).
    apply orb_true_iff in H. destruct H as [H|H].
    - apply keqb_spec in H. contradiction.
    - apply Z.eqb_eq. exact H.
  Qed.
  Lemma site_qsp_qsparse qd ql qr (A : site) : site_qsp qd ql qr A -> site_qsparse qd ql qr A = true.
  Proof.
    unfold site_qsparse, site_qsp. intros H.
    apply forallb_forall. intros s Hs. apply in_seq in Hs.
    apply forallb_forall. intros a Ha. apply in_seq in Ha.
    apply forallb_forall. intros b Hb. apply in_seq in Hb.
    destruct (keqb R (get (sel A s) a b) rO) eqn:E; [reflexivity|]. simpl.
    apply Z.eqb_eq. apply H; try lia. apply keqb_false. exact E.
  Qed.

  Lemma valid_in_site_mx d Dl Dr (A : site) qd ql qr :
    1 <= d -> length qd = d -> length ql = Dl -> length qr = Dr ->
    site_ok d Dl Dr A -> site_qsp qd ql qr A ->
    valid_in (site_mx A) (qflat qd ql) qr = true.
  Proof.
    intros Hd Lqd Lql Lqr HA Hsp. destruct (site_ok_dims d Dl Dr A Hd HA) as (E1 & E2 & E3).
    unfold valid_in. rewrite !andb_true_iff. repeat split.
    - unfold site_mx. apply wfb_tab.
    - apply Nat.eqb_eq. rewrite qflat_length, nr_site_mx. congruence.
    - apply Nat.eqb_eq. rewrite nc_site_mx. congruence.
    - unfold qsparseb. rewrite nr_site_mx, nc_site_mx, E1, E2, E3.
      apply forallb_forall. intros i Hi. apply in_seq in Hi.
      apply forallb_forall. intros j Hj. apply in_seq in Hj.
      destruct (row_split d Dl i ltac:(lia)) as (s & a & Hs & Ha & ->).
      rewrite (get_site_mx d Dl Dr A s a j Hd HA Hs Ha ltac:(lia)).
      destruct (keqb R (get (sel A s) a j) rO) eqn:E; [reflexivity|]. simpl.
      apply Z.eqb_eq. rewrite <- Lql at 1. rewrite qflat_nth by lia.
      apply (Hsp s a j); try lia. apply keqb_false. exact E.
  Qed.

  (* ---------- the Q factor as a site tensor ---------- *)
  Section QSite.
    Variables (d Dl Dr : nat) (A : site) (Q Rm : mx) (qb : list Z).
    Hypothesis Hd : 1 <= d.
    Hypothesis HA : site_ok d Dl Dr A.
    Hypothesis HwQ : wf Q. Hypothesis HwR : wf Rm.
    Hypothesis HnrQ : nr Q = d * Dl. Hypothesis HncQ : nc Q = length qb.
    Hypothesis HnrR : nr Rm = length qb. Hypothesis HncR : nc Rm = Dr.
    Hypothesis HQR : mulmx Q Rm = site_mx A.
    Hypothesis HQQ : mulmx (adjmx Q) Q = idmx (length qb).

    Lemma slab_mul s : s < d -> mulmx (sel (mx_site d Dl Q) s) Rm = sel A s.
    Proof.
      intros Hs. destruct HA as [_ HA']. destruct (HA' s Hs) as (Hw & Hr & Hc).
      rewrite sel_mx_site by exact Hs.
      apply mx_ext; [apply wf_mulmx|exact Hw|rewrite nr_mulmx, nr_tab; congruence|rewrite nc_mulmx; congruence|].
      rewrite nr_mulmx, nc_mulmx, nr_tab, HncR. intros a b Ha Hb.
      rewrite get_mulmx by (rewrite ?nr_tab; lia). rewrite nc_tab.
      rewrite <- (get_site_mx d Dl Dr A s a b Hd (conj (proj1 HA) HA') Hs Ha Hb), <- HQR.
      rewrite get_mulmx by (try nia; lia).
      apply sumn_ext. intros c Hc'. rewrite get_tab by lia. reflexivity.
    Qed.

    Lemma slab_liso : liso Dl (length qb) (mx_site d Dl Q).
    Proof.
      intros k l Hk Hl. rewrite length_mx_site.
      assert (E : get (mulmx (adjmx Q) Q) k l = get (idmx (length qb)) k l) by (rewrite HQQ; reflexivity).
      rewrite get_mulmx in E by (rewrite ?nr_adjmx; lia). rewrite get_idmx in E by lia.
      rewrite nc_adjmx, HnrQ in E. unfold delta. rewrite <- E. rewrite (sumn_flatten R d Dl).
      apply sumn_ext. intros s Hs. apply sumn_ext. intros a Ha.
      rewrite sel_mx_site by exact Hs. rewrite !get_tab by lia. rewrite get_adjmx by (try nia; lia). reflexivity.
    Qed.

    Lemma slab_qsp qd ql : length qd = d -> length ql = Dl -> qsp R Q (qflat qd ql) qb ->
      site_qsp qd ql qb (mx_site d Dl Q).
    Proof.
      intros Lqd Lql Hsp s a c Hs Ha Hc Hnz. rewrite sel_mx_site in Hnz by lia.
      rewrite get_tab in Hnz by lia.
      specialize (Hsp (s * Dl + a) c ltac:(nia) ltac:(lia) Hnz).
      rewrite <- Lql in Hsp at 1. rewrite qflat_nth in Hsp by lia. exact Hsp.
    Qed.
  End QSite.

  (* ---------- R . Anext stays block sparse under the new bond charges ---------- *)
  Lemma lmul_qsp dn Da Dn (M : mx) (An : site) qdn qb qa qn :
    site_ok dn Da Dn An -> length qdn = dn -> length qb = nr M -> length qa = Da -> length qn = Dn -> nc M = Da ->
    qsp R M qb qa -> site_qsp qdn qa qn An -> site_qsp qdn qb qn (lmul M An).
  Proof.
    intros [HlA HA] Lqd Lqb Lqa Lqn HcM HM Hsp s c b Hs Hc Hb Hnz.
    unfold lmul in Hnz. rewrite sel_map in Hnz by lia.
    destruct (HA s ltac:(lia)) as (Hw & Hr & Hcc).
    rewrite get_mulmx in Hnz by lia.
    apply sumn_nonzero in Hnz. destruct Hnz as (a & Ha & Hnz). apply mul_nonzero in Hnz. destruct Hnz as [H1 H2].
    specialize (HM c a ltac:(lia) Ha H1). specialize (Hsp s a b Hs ltac:(lia) Hb H2).
    unfold zget in *. lia.
  Qed.

  (* ---------- the local step ---------- *)
  Variable dqr : mx -> mx * mx.

  Lemma local_left_qr_ok d dn Dl Dr Dn (A An : site) qd ql qr :
    1 <= d -> 1 <= Dl -> 1 <= Dr -> length qd = d -> length ql = Dl -> length qr = Dr ->
    site_shape d Dl Dr A = true -> site_qsparse qd ql qr A = true ->
    site_shape dn Dr Dn An = true -> 1 <= dn ->
    Forall (fun B => dqr_ok R B (dqr B)) (local_left_qr_calls A qd ql qr) ->
    exists Q Rm qb,
      local_left_qr dqr A An qd ql qr = Some (mx_site d Dl Q, lmul Rm An, qb) /\
      wf Rm /\ nr Rm = length qb /\ nc Rm = Dr /\
      1 <= length qb /\ length qb <= d * Dl /\ length qb <= Dr /\
      qsp R Rm qb qr /\
      site_shape d Dl (length qb) (mx_site d Dl Q) = true /\
      site_qsparse qd ql qb (mx_site d Dl Q) = true /\
      liso Dl (length qb) (mx_site d Dl Q) /\
      (forall s, s < d -> mulmx (sel (mx_site d Dl Q) s) Rm = sel A s) /\
      block_qr dqr (site_mx A) (qflat qd ql) qr = Some (Q, Rm, qb) /\
      valid_in (site_mx A) (qflat qd ql) qr = true /\ nr (site_mx A) = d * Dl /\ nc (site_mx A) = Dr.
  Proof.
    intros Hd HDl HDr Lqd Lql Lqr HsA HspA HsN Hdn Hcalls.
    assert (HA := site_shape_site_ok d Dl Dr A HsA).
    assert (HN := site_shape_site_ok dn Dr Dn An HsN).
    destruct (site_ok_dims d Dl Dr A Hd HA) as (E1 & E2 & E3).
    destruct (site_ok_dims dn Dr Dn An Hdn HN) as (F1 & F2 & F3).
    assert (Hv : valid_in (site_mx A) (qflat qd ql) qr = true)
      by (apply (valid_in_site_mx d Dl Dr A qd ql qr Hd Lqd Lql Lqr HA (site_qsparse_qsp qd ql qr A HspA))).
    assert (Hnr : nr (site_mx A) = d * Dl) by (rewrite nr_site_mx; congruence).
    assert (Hnc : nc (site_mx A) = Dr) by (rewrite nc_site_mx; congruence).
    destruct (block_qr_spec_gen R dqr (site_mx A) (qflat qd ql) qr Hv ltac:(nia) ltac:(lia) Hcalls)
      as ([[Q Rm] qb] & E & HC).
    assert (Hpos := block_qr_len_pos R dqr (site_mx A) (qflat qd ql) qr Q Rm qb Hv ltac:(nia) ltac:(lia) Hcalls E).
    destruct HC as (HwQ & HwR & HnrQ & HncQ & HnrR & HncR & Hle & HQR & HQQ & HspQ & HspR & _).
    rewrite Hnr in HnrQ. rewrite Hnc in HncR. rewrite Hnr, Hnc in Hle.
    exists Q, Rm, qb.
    split. { unfold local_left_qr. rewrite E, HncR, F1, Nat.eqb_refl, E3, E1. reflexivity. }
    split; [exact HwR|]. split; [exact HnrR|]. split; [exact HncR|]. split; [exact Hpos|].
    split; [lia|]. split; [lia|]. split; [exact HspR|].
    split. { rewrite <- HncQ. apply site_shape_mx_site. }
    split. { apply site_qsp_qsparse. eapply slab_qsp; eauto. }
    split. { eapply slab_liso; eauto. }
    split. { intros s Hs. eapply slab_mul; eauto. }
    split; [exact E|]. split; [exact Hv|]. split; assumption.
  Qed.
End Local.
