(* C02, round 4 (2): executable versions of the weak contracts of Proofs/Hist4Charge.v and of the QR sparsity contract, for the
   non-vacuity example (runs with the trivial eigensolver keig_id = (Rayleigh quotient of the start tensor, start tensor)). *)
From Coq Require Import ZArith Arith List Lia Bool.
From PT Require Import Base.Scalar Base.Field Base.BigSum Base.Mx Model.Tensor Model.MPSOps Model.Operation Model.Sweeps.
From PT Require Import Proofs.OperationEntries Proofs.OperationTwoSite Proofs.SweepsCanon Proofs.SweepsGauge Proofs.SweepsRun Proofs.SweepsCheck
  Proofs.Sweeps2Run.
From PT Require Import Proofs.HistSparse Proofs.Hist2Local Proofs.Hist2Sweep Proofs.Hist3Sweep2 Proofs.Hist3Top Proofs.Hist3Example Proofs.Hist4Top Proofs.Hist4Bool Proofs.Hist4Charge Proofs.Hist4ChargeTop.
From PT Require Import Model.BondOps Model.BondOpsF5.
Import ListNotations.
Open Scope nat_scope.

Section CB.
  Variable R : cring.

  (* C[a, b] <> 0 -> ql[a] = qr[b], with the shapes *)
  Definition bond_okb (ql qr' : list Z) (C : mx R) : bool :=
    Nat.eqb (nr C) (length ql) && Nat.eqb (nc C) (length qr') &&
    forallb (fun a => forallb (fun b => keqb R (get C a b) (k0 R) || Z.eqb (0 + zget ql a) (zget qr' b)) (seq 0 (length qr'))) (seq 0 (length ql)).
  Lemma bond_okb_sound ql qr' C : bond_okb ql qr' C = true -> bond_okP R ql qr' C.
  Proof.
    unfold bond_okb, bond_okP. rewrite !andb_true_iff, !Nat.eqb_eq. intros [[H1 H2] H3]. split; [exact H1|]. split; [exact H2|].
    intros a b Ha Hb. rewrite forallb_seq0 in H3. specialize (H3 a Ha). rewrite forallb_seq0 in H3. specialize (H3 b Hb).
    apply entry_b. exact H3.
  Qed.
  Definition qr_sp_okb (q0 q1 : list Z) (ans : mx R * mx R * list Z) : bool :=
    let '(Q, C, qb) := ans in
    bond_okb q0 qb Q && bond_okb qb q1 C && wfb C && Nat.ltb 0 (length qb) && Nat.leb (length qb) (length q1).
  Lemma qr_sp_okb_sound M q0 q1 ans : qr_sp_okb q0 q1 ans = true -> qr_sp_ok R M q0 q1 ans.
  Proof.
    destruct ans as [[Q C] qb]. unfold qr_sp_okb, qr_sp_ok. rewrite !andb_true_iff, Nat.ltb_lt, Nat.leb_le.
    intros [[[[H1 H2] H3] H4] H5]. split; [apply bond_okb_sound; exact H1|]. split; [apply bond_okb_sound; exact H2|]. auto.
  Qed.

  (* the truncating-split contract: shapes chain, the orthonormal factor is an isometry, the product is not zero *)
  Definition split_nzb (d : nat) (left : bool) (Am : site R) (ans : site R * site R * list Z) : bool :=
    let A0 := fst (fst ans) in let A1 := snd (fst ans) in
    let Dl := sdl Am in let Dr := sdr Am in let k := sdr A0 in
    Nat.ltb 0 d && site_shape d Dl k A0 && site_shape d k Dr A1 &&
    (if left then right_isob A1 else left_isob A0) &&
    negb (keqb R (site_dot (c04_merge_site A0 A1) (c04_merge_site A0 A1)) (k0 R)).
  Lemma split_nzb_ok d left Am ans : split_nzb d left Am ans = true -> split_nz d left Am ans.
  Proof.
    unfold split_nzb, split_nz. cbv zeta. rewrite !andb_true_iff, Nat.ltb_lt. intros ((((Hd & H0) & H1) & Hi) & Hn) Dl Dr HM _.
    assert (Hdd : 0 < d * d) by (apply Nat.mul_pos_pos; exact Hd).
    destruct (site_ok_sdl R _ _ _ _ Hdd HM) as (E1 & E2 & _). rewrite E1, E2 in *.
    exists (sdr (fst (fst ans))). split; [apply site_shape_ok; exact H0|]. split; [apply site_shape_ok; exact H1|].
    split; [destruct left; [apply right_isob_ok|apply left_isob_ok]; exact Hi|].
    apply negb_true_iff in Hn. apply keqb_false. exact Hn.
  Qed.
End CB.
Arguments bond_okb {R} ql qr' C. Arguments qr_sp_okb {R} q0 q1 ans. Arguments split_nzb {R} d left Am ans.

(* whole traces of two-site DMRG with the trivial eigensolver *)
Section TraceB.
  Variable F : ofield.
  Notation K := (Cx F).
  Variable qr : nat -> mx K -> list Z -> list Z -> mx K * mx K * list Z.
  Variable split : nat -> site K -> list Z -> list Z -> list Z -> list Z -> bool -> site K * site K * list Z.

  (* weak C10-side contracts *)
  Fixpoint wtr2_okb (d : nat) (tr : list (tcall K)) : bool :=
    match tr with
    | [] => true
    | t :: rest =>
        (match c_kind (t_call t), t_envs t, t_ten t, t_qs t with
         | EIG2, [BL; BR], [Am], _ => negb (keqb K (site_dot Am Am) (k0 K))
         | SPLITL, _, [Am], [q0; q1; q2; q3] => split_nzb d true Am (split (length rest) Am q0 q1 q2 q3 true)
         | SPLITR, _, [Am], [q0; q1; q2; q3] => split_nzb d false Am (split (length rest) Am q0 q1 q2 q3 false)
         | QR, _, [[M]], [q0; q1] => qr_okb M (qr (length rest) M q0 q1)
         | _, _, _, _ => true
         end) && wtr2_okb d rest
    end.
  Lemma wtr2_okb_ok Hs d tr : wtr2_okb d tr = true -> wtr2_ok qr split keig_id Hs d tr.
  Proof.
    induction tr as [|t rest IH]; [intros _; exact I|]. cbn [wtr2_okb wtr2_ok]. rewrite andb_true_iff. intros [H1 H2].
    split; [|exact (IH H2)]. clear IH H2. unfold dmrg2w_call_ok. destruct t as [[k i c] envs ten qs]. cbn [t_call c_kind c_site c_coef t_envs t_ten t_qs] in *.
    destruct k; try exact I.
    - destruct envs as [|BL [|BR [|? ?]]]; try exact I. destruct ten as [|A [|? ?]]; try exact I.
      unfold keig_id, keig_nz. cbn [fst snd]. split; [auto|]. apply negb_true_iff in H1. apply keqb_false. exact H1.
    - destruct ten as [|[|M [|? ?]] [|? ?]]; try exact I. destruct qs as [|q0 [|q1 [|? ?]]]; try exact I.
      apply qr_okb_ok. exact H1.
    - destruct ten as [|A [|? ?]]; try exact I. destruct qs as [|q0 [|q1 [|q2 [|q3 [|? ?]]]]]; try exact I.
      intros _. apply split_nzb_ok. exact H1.
    - destruct ten as [|A [|? ?]]; try exact I. destruct qs as [|q0 [|q1 [|q2 [|q3 [|? ?]]]]]; try exact I.
      intros _. apply split_nzb_ok. exact H1.
  Qed.

  (* C02-side sparsity contracts: the eigensolver returns its (block sparse) start tensor; split and QR answers are checked *)
  Fixpoint sp2_okb (tr : list (tcall K)) : bool :=
    match tr with
    | [] => true
    | t :: rest =>
        (match c_kind (t_call t), t_envs t, t_ten t, t_qs t with
         | EIG2, [BL; BR], [Am], _ => true
         | EIG, [BL; BR], [A], _ => true
         | SPLITL, _, [Am], [q0; q1; q2; q3] => split_sp_okb q0 q1 q2 q3 (split (length rest) Am q0 q1 q2 q3 true)
         | SPLITR, _, [Am], [q0; q1; q2; q3] => split_sp_okb q0 q1 q2 q3 (split (length rest) Am q0 q1 q2 q3 false)
         | QR, _, [[M]], [q0; q1] => qr_sp_okb q0 q1 (qr (length rest) M q0 q1)
         | KH, _, _, _ | KB, _, _, _ | KH2, _, _, _ | EIG, _, _, _ | EIG2, _, _, _ | SPLITL, _, _, _ | SPLITR, _, _, _ | QR, _, _, _ => false
         | _, _, _, _ => true
         end) && sp2_okb rest
    end.
  Lemma sp2_okb_ok kexp kexp0 Hs qd qWs dt hdt tr : sp2_okb tr = true ->
    sp2_tr_ok K qr split kexp kexp0 keig_id Hs qd qWs dt hdt tr.
  Proof.
    induction tr as [|t rest IH]; [intros _; exact I|]. cbn [sp2_okb sp2_tr_ok]. rewrite andb_true_iff. intros [H1 H2].
    split; [|exact (IH H2)]. clear IH H2. unfold sp2_call_ok, sp_call_ok. destruct t as [[k i c] envs ten qs]. cbn [t_call c_kind c_site c_coef t_envs t_ten t_qs] in *.
    destruct k; try exact I.
    - (* KH *) destruct envs as [|BL [|BR [|? ?]]]; try exact I. destruct ten as [|A [|? ?]]; try exact I. discriminate H1.
    - (* KH2 *) destruct envs as [|BL [|BR [|? ?]]]; try exact I. destruct ten as [|A [|? ?]]; try exact I. discriminate H1.
    - (* KB *) destruct envs as [|BL [|BR [|? ?]]]; try exact I. destruct ten as [|[|C [|? ?]] [|? ?]]; try exact I. discriminate H1.
    - (* EIG *) destruct envs as [|BL [|BR [|? ?]]]; try exact I. destruct ten as [|A [|? ?]]; try exact I.
      intros ql qr' HA _ _. exact HA.
    - (* EIG2 *) destruct envs as [|BL [|BR [|? ?]]]; try exact I. destruct ten as [|A [|? ?]]; try exact I.
      intros ql qr' HA _ _. exact HA.
    - (* QR *) destruct ten as [|[|M [|? ?]] [|? ?]]; try exact I. destruct qs as [|q0 [|q1 [|? ?]]]; try exact I.
      intros _. apply qr_sp_okb_sound.
      destruct envs as [|? [|? [|? ?]]]; exact H1.
    - (* SPLITL *) destruct ten as [|A [|? ?]]; try exact I. destruct qs as [|q0 [|q1 [|q2 [|q3 [|? ?]]]]]; try exact I.
      intros _. apply split_sp_okb_sound. destruct envs as [|? [|? [|? ?]]]; exact H1.
    - (* SPLITR *) destruct ten as [|A [|? ?]]; try exact I. destruct qs as [|q0 [|q1 [|q2 [|q3 [|? ?]]]]]; try exact I.
      intros _. apply split_sp_okb_sound. destruct envs as [|? [|? [|? ?]]]; exact H1.
  Qed.
End TraceB.
Arguments wtr2_okb {F} qr split d tr. Arguments sp2_okb {F} qr split tr.

(* two-site DMRG with the model split [split5] and the trivial eigensolver: the hypothesis [dm5_tr_ok] of
   dmrg2_total_charge_kept_tol *)
Section Dm5B.
  Variable F : ofield.
  Notation K := (Cx F).
  Variable qr : nat -> mx K -> list Z -> list Z -> mx K * mx K * list Z.
  Variable dsvd : mx K -> mx K * list F * mx K.
  Variable pick : list F -> list nat.
  Variable tol : F.

  Fixpoint dm5_okb (d : nat) (tr : list (tcall K)) : bool :=
    match tr with
    | [] => true
    | t :: rest =>
        (match c_kind (t_call t), t_envs t, t_ten t, t_qs t with
         | EIG2, [BL; BR], [Am], _ => negb (keqb K (site_dot Am Am) (k0 K))
         | SPLITL, _, [Am], [q0; q1; q2; q3] | SPLITR, _, [Am], [q0; q1; q2; q3] =>
             Nat.eqb (length q0) d && Nat.eqb (length q1) d && Nat.ltb 0 d &&
             svd_lapack_okb dsvd pick tol (split_matrix (length q0) (length q1) Am) (MPSOps.qflat q0 q2) (MPSOps.qflat (map Z.opp q1) q3)
         | QR, _, [[M]], [q0; q1] => qr_sp_okb q0 q1 (qr (length rest) M q0 q1) && qr_okb M (qr (length rest) M q0 q1)
         | STL, _, _, _ | STR, _, _, _ => true
         | _, _, _, _ => false
         end) && dm5_okb d rest
    end.
  Lemma dm5_okb_ok Hs qd qWs d tr : dm5_okb d tr = true -> dm5_tr_ok F qr keig_id dsvd pick tol Hs qd qWs d tr.
  Proof.
    induction tr as [|t rest IH]; [intros _; exact I|]. cbn [dm5_okb dm5_tr_ok]. rewrite andb_true_iff. intros [H1 H2].
    split; [|exact (IH H2)]. clear IH H2. unfold dm5_call_ok. destruct t as [[k i c] envs ten qs]. cbn [t_call c_kind c_site c_coef t_envs t_ten t_qs] in *.
    destruct k; try discriminate H1; try exact I.
    - (* EIG2 *) destruct envs as [|BL [|BR [|? ?]]]; try discriminate H1. destruct ten as [|A [|? ?]]; try discriminate H1.
      split; [intros ql qr' HA _ _; exact HA|].
      unfold keig_id, keig_nz. cbn [fst snd]. split; [auto|]. apply negb_true_iff in H1. apply keqb_false. exact H1.
    - (* QR *) destruct ten as [|[|M [|? ?]] [|? ?]]; try discriminate H1. destruct qs as [|q0 [|q1 [|? ?]]]; try discriminate H1.
      apply andb_true_iff in H1. destruct H1 as [Ha Hb]. split; [intros _; apply qr_sp_okb_sound; exact Ha|apply qr_okb_ok; exact Hb].
    - (* SPLITL *) destruct ten as [|A [|? ?]]; try discriminate H1. destruct qs as [|q0 [|q1 [|q2 [|q3 [|? ?]]]]]; try discriminate H1.
      rewrite !andb_true_iff, !Nat.eqb_eq, Nat.ltb_lt in H1. destruct H1 as [[[Ha Hb] Hc] Hd'].
      split; [exact Ha|]. split; [exact Hb|]. split; [exact Hc|]. apply svd_lapack_okb_sound. exact Hd'.
    - (* SPLITR *) destruct ten as [|A [|? ?]]; try discriminate H1. destruct qs as [|q0 [|q1 [|q2 [|q3 [|? ?]]]]]; try discriminate H1.
      rewrite !andb_true_iff, !Nat.eqb_eq, Nat.ltb_lt in H1. destruct H1 as [[[Ha Hb] Hc] Hd'].
      split; [exact Ha|]. split; [exact Hb|]. split; [exact Hc|]. apply svd_lapack_okb_sound. exact Hd'.
  Qed.
End Dm5B.
Arguments dm5_okb {F} qr dsvd pick tol d tr.

(* a boolean check evaluated on the result of a run transfers to the result of that run; stated so that the kernel never has to
   convert the run itself (only the vm_compute cast evaluates it) *)
Lemma opt_check4 {T} (o : option T) (P : T -> bool) :
  match o with Some x => P x | None => false end = true -> forall x, o = Some x -> P x = true.
Proof. intros H x E. rewrite E in H. exact H. Qed.
