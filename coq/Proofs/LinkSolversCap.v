(* Link 3' (C15 -> C10): the local eigensolver of pytenet/minimization.py AS REPAIRED (commit "fix: limit Lanczos iterations
   in local energy minimization to the dimension of the local problem"):

     def _minimize_local_energy(L, R, W, Astart, numiter: int):
         numiter = min(numiter, Astart.size)
         w, u_ritz = eigh_krylov(lambda x: apply_local_hamiltonian(L, R, W, x.reshape(Astart.shape)).reshape(-1),
                                 Astart.reshape(-1), numiter, 1)
         Aopt = u_ritz[:, 0].reshape(Astart.shape)
         return w[0], Aopt

   [keig_lanczos_cap] = [keig_lanczos] (Proofs/LinkSolvers.v, the solver before the repair) run with the capped iteration count
   min(numiter, Astart.size).  A site tensor of shape (d, Dl, Dr) is a list of d matrices Dl x Dr, so Astart.size is
   [site_size A] = length A * sdl A * sdr A; the merged two-site tensor of calculate_ground_state_local_twosite is a site with
   d0*d1 matrices (c04_merge_site), so the same expression is its .size.

   Zero-size start tensors (some dimension 0): the cap is 0; the real code raises in lanczos_iteration (assert nrmv > 0: the norm
   of the empty vector is 0), the model returns the error value (k0, []) (Model/Krylov.v: lanczos returns None for numiter = 0
   and for a non-positive norm).  The contract theorem does not need a separate positivity hypothesis on Dl, Dr: the hypothesis
   "the start tensor is not zero" (site_dot A A <> 0, which along a run follows from norm one) already forces d*Dl*Dr >= 1
   ([site_size_pos]), hence 1 <= min(numiter, size) whenever 1 <= numiter. *)
From Coq Require Import ZArith List Bool Arith Lia Ring Field.
From PT Require Import Base.Scalar Base.Field Base.BigSum Base.Mx Model.Tensor Model.Operation Model.Krylov Model.Sweeps
  Proofs.OperationEntries Proofs.KrylovVec Proofs.KrylovLanczos Proofs.KrylovMatvec Proofs.KrylovExpm Proofs.KrylovRitz
  Proofs.LinkExpmEnergy Proofs.LinkFlatten Proofs.LinkLocalOps Proofs.SweepsInv Proofs.SweepsRun Proofs.LinkSolvers.
Import ListNotations.

(* Astart.size *)
Definition site_size {R : cring} (A : site R) : nat := length A * sdl A * sdr A.

Section ConcreteCap.
  Variable F : ofield.
  Notation K := (Cx F).
  Variable dnorm : list K -> F.
  Variable small : F -> bool.
  Variable deigh : list F -> list F -> list F * list (list F).
  Variable numiter : nat.

  (* _minimize_local_energy after the repair *)
  Definition keig_lanczos_cap (pos : nat) (BL BR : env K) (W : osite K) (A : site K) : K * site K :=
    keig_lanczos F dnorm small deigh (Nat.min numiter (site_size A)) pos BL BR W A.

  (* LAPACK-level contract of one call: the contracts of the primitives on the calls issued by the CAPPED Lanczos run *)
  Definition keig_lanczos_cap_calls_ok (BL BR : env K) (W : osite K) (A : site K) : Prop :=
    keig_lanczos_calls_ok F dnorm small deigh (Nat.min numiter (site_size A)) BL BR W A.

  Lemma site_size_ok d Dl Dr (A : site K) : 0 < d -> site_ok d Dl Dr A -> site_size A = d * Dl * Dr.
  Proof. intros Hd HA. destruct (site_ok_sdl K d Dl Dr A Hd HA) as (E1 & E2 & E3). unfold site_size. rewrite E1, E2, E3. reflexivity. Qed.

  (* a non-zero tensor has at least one entry *)
  Lemma site_size_pos d Dl Dr (A : site K) : 0 < d -> site_ok d Dl Dr A -> site_dot A A <> k0 K -> 1 <= site_size A.
  Proof.
    intros Hd HA Hnz. rewrite (site_size_ok d Dl Dr A Hd HA).
    pose proof (site_vec_nonzero F d Dl Dr Hd A HA Hnz) as Hv. pose proof (length_site_vec F d Dl Dr A) as Hl.
    destruct (d * Dl * Dr) as [|k] eqn:E; [|lia].
    exfalso. apply Hv. destruct (site_vec F d Dl Dr A); [reflexivity|discriminate Hl].
  Qed.

  Hypothesis small_pos : small_sound F small.
  Hypothesis Hm : 1 <= numiter.

  (* ---- keig_cap_from_krylov: ONE call of the repaired _minimize_local_energy meets the Ritz contract ---- *)
  Theorem keig_cap_from_krylov d Dl Dr Dwl Dwr pos (BL BR : env K) (W : osite K) (A : site K) :
    0 < d -> 0 < Dwl -> 0 < Dwr ->
    osite_ok d Dwl Dwr W -> env_ok Dwl Dl Dl BL -> env_ok Dwr Dr Dr BR -> site_ok d Dl Dr A ->
    local_sa F d Dl Dr (apply_local_hamiltonian BL BR W) ->
    site_dot A A <> k0 K ->
    keig_lanczos_cap_calls_ok BL BR W A ->
    keig_ok d BL BR W A (keig_lanczos_cap pos BL BR W A).
  Proof.
    intros Hd Hwl Hwr HW HL HR HA Hsa Hnz Hc.
    assert (Hm' : 1 <= Nat.min numiter (site_size A)).
    { pose proof (site_size_pos d Dl Dr A Hd HA Hnz). apply Nat.min_glb; assumption. }
    exact (keig_from_krylov F dnorm small deigh (Nat.min numiter (site_size A)) small_pos Hm' d Dl Dr Dwl Dwr pos BL BR W A
             Hd Hwl Hwr HW HL HR HA Hsa Hnz Hc).
  Qed.

  (* when the cap does not bite the repaired solver is the old one *)
  Lemma keig_lanczos_cap_nocap pos BL BR W (A : site K) : numiter <= site_size A ->
    keig_lanczos_cap pos BL BR W A = keig_lanczos F dnorm small deigh numiter pos BL BR W A.
  Proof. intros H. unfold keig_lanczos_cap. rewrite Nat.min_l by exact H. reflexivity. Qed.
End ConcreteCap.
