(* C05 structure, part 7: bond quantum numbers.  Every edge of the returned graph carries one operator of one padded
   chain at one position k < L, and the charges of its two end nodes are that chain's interleaved charges at k and k + 1
   (what the code's own asserts [node_prev.qnum == u.qnum0], [u.qnum1 == node.qnum] express, made global). *)
From Coq Require Import ZArith List Lia Bool.
From PT Require Import Base.Scalar Base.BigSum Model.OpGraph Model.FromOpchains
                       Proofs.FromOpchainsGraph Proofs.FromOpchainsPart Proofs.FromOpchainsSem Proofs.FromOpchainsMain
                       Proofs.FromOpchainsThm Proofs.FromOpchainsOk1
                       Proofs.FromOpchainsWF1 Proofs.FromOpchainsWF2 Proofs.FromOpchainsWF3 Proofs.FromOpchainsWF4
                       Proofs.FromOpchainsOk3 Proofs.FromOpchainsLen.
Import ListNotations.
Open Scope Z_scope.

Lemma hd_skipn {A} (d : A) : forall n l, hd d (skipn n l) = nth n l d.
Proof. induction n as [|n IH]; intros [|a l]; simpl; auto. Qed.
Lemma tl_skipn {A} : forall n (l : list A), tl (skipn n l) = skipn (S n) l.
Proof. induction n as [|n IH]; intros [|a l]; simpl; auto. apply IH. Qed.
Lemma nth_app_default {A} (d : A) : forall l n, nth n (l ++ [d]) d = nth n l d.
Proof. induction l as [|a l IH]; intros [|n]; simpl; auto. destruct n; reflexivity. Qed.

Section Q.
  Variable R : cring.
  Notation graph := (graph R).
  Notation gedge := (gedge R).
  Notation st := (st R).
  Notation part := (part R).

  Section Site.
    Variables (g0 : graph) (nb0 : Z) (p : part).
    Hypothesis HU : Forall (fun u => 0 <= u_nidl u < nb0) (p_u p).
    Hypothesis HC : covered R p.

    Definition vlike (hc : hchain * R) : Prop :=
      exists v, In v (p_v p) /\ h_oids (fst hc) = h_oids v /\ h_qnums (fst hc) = h_qnums v.
    Definition eprov (g : graph) (e : gedge) : Prop :=
      In e (g_edges g0) \/
      exists u cf, In u (p_u p) /\ e_from e = u_nidl u /\ e_opics e = [(u_oid u, cf)] /\
                   nqr R g (e_from e) (u_q0 u) /\ nqr R g (e_to e) (u_q1 u).

    Record H6 (c : st) : Prop := mkH6 {
      h6_5 : H5 R g0 nb0 p c;
      h6_nx : Forall vlike (s_next c);
      h6_edge : forall e, In e (g_edges (s_g c)) -> eprov (s_g c) e }.

    Lemma eprov_ext g g' e : ext R g g' -> eprov g e -> eprov g' e.
    Proof.
      intros X [H|[u [cf [A [B [C [D E]]]]]]]; [left; exact H|]. right. exists u, cf. repeat split; auto; eapply nqr_ext; eauto.
    Qed.

    Lemma u_step_H6 c i c' : H6 c -> u_step p (Ok c) i = Ok c' -> H6 c'.
    Proof.
      intros [H5c Hvl Hed] H.
      pose proof (u_step_H5 R g0 nb0 p HU HC c i c' H5c H) as H5c'.
      destruct H5c as [H4c _ _ _ _ _ _]. destruct H4c as [Hg Hnb Hz Hd Ho Hp Hnx].
      unfold u_step in H. cbn [bind] in H.
      destruct (nth_error (p_u p) i) as [u|] eqn:Eu; [|discriminate].
      assert (Hin : In u (p_u p)) by (eapply nth_error_In; exact Eu).
      assert (Hul : 0 <= u_nidl u < nb0). { rewrite Forall_forall in HU. apply HU. exact Hin. }
      set (eid := s_eid c) in *. set (nid := s_nid c) in *.
      set (enew := new_edge eid (u_nidl u) nid [(u_oid u, k1 R)]) in *.
      destruct (add_edge (s_g c) enew) as [g1|] eqn:Ea; [|discriminate].
      destruct (find_node g1 (u_nidl u)) as [np|] eqn:Fnp; [|discriminate].
      destruct (n_q np =? u_q0 u) eqn:Eq0; cbn [negb] in H; [|discriminate].
      destruct (add_node (upd_node g1 (u_nidl u) (node_add_eid eid 1)) (mknode nid [eid] [] (u_q1 u))) as [g2|] eqn:En; [|discriminate].
      destruct (u_graph_eq R (s_g c) enew (u_nidl u) nid eid (u_q1 u) g1 g2 eq_refl eq_refl eq_refl ltac:(lia) Ea En) as [h [Eh Ec]].
      destruct (GS_add_node R _ _ _ _ _ Hg Eh) as [Gh [Eeh [Nh _]]].
      destruct (add_node5 R _ _ _ Eh) as [_ Xh].
      assert (Fnp0 : find_node (s_g c) (u_nidl u) = Some np).
      { apply add_edge_spec in Ea. destruct Ea as [-> _]. exact Fnp. }
      assert (Fnp' : find_node h (u_nidl u) = Some np).
      { apply add_node_spec in Eh. destruct Eh as [-> _]. unfold find_node in *. cbn [g_nodes]. rewrite find_app, Fnp0. reflexivity. }
      assert (Ih : ids R h = ids R (s_g c) ++ [nid]). { unfold ids. rewrite Nh, map_app. reflexivity. }
      destruct (connect5 R h (nid + 1) eid (u_nidl u) nid (u_oid u) (k1 R) g2 np Gh Fnp') as [G2 [I2 [X2 [O2 [L2 E2]]]]];
        [rewrite Ih; apply in_app_iff; right; left; reflexivity|lia|exact Ec|].
      assert (X02 : ext R (s_g c) g2) by (eapply ext_trans; eauto).
      assert (Q0 : nqr R g2 (u_nidl u) (u_q0 u)).
      { apply (nqr_ext R _ _ _ _ X02). destruct (find_node_id R _ _ _ Fnp0) as [A B]. exists np. split; [exact B|]. split; [exact A|].
        apply Z.eqb_eq. exact Eq0. }
      assert (Q1 : nqr R g2 nid (u_q1 u)).
      { apply (nqr_ext R _ _ _ _ X2). exists (mknode nid [] [] (u_q1 u)). split; [rewrite Nh; apply in_app_iff; right; left; reflexivity|auto]. }
      assert (P2 : forall e, In e (g_edges g2) -> eprov g2 e).
      { intros e He. rewrite E2, Eeh in He. apply in_app_iff in He. destruct He as [He|[<-|[]]].
        - apply (eprov_ext _ _ _ X02). apply Hed. exact He.
        - right. exists u, (k1 R). split; [exact Hin|]. split; [reflexivity|]. split; [apply new_edge_single|]. split; [exact Q0|exact Q1]. }
      set (UI := fun cc : st => s_g cc = g2 /\ Forall vlike (s_next cc)).
      assert (HUI : UI c').
      { refine (fold_res_inv (u_inner p i nid) UI (fun e b => eq_refl) _ _ _ _ _ H).
        - split; [reflexivity|exact Hvl].
        - intros cc j cc' _ [E1 E4] Hj. unfold u_inner in Hj. cbn [bind] in Hj.
          destruct (nth_error (p_v p) j) as [v|] eqn:Ev; [|discriminate]. destruct (gamma_get (i, j) (p_gamma p)) as [cf|]; [|discriminate].
          destruct (pmem (i, j) (s_rem cc)); [|discriminate]. inversion Hj; subst cc'. unfold UI. cbn [s_g s_next].
          split; [exact E1|]. apply Forall_app. split; [exact E4|]. constructor; [|constructor].
          exists v. split; [eapply nth_error_In; exact Ev|]. cbn. auto. }
      destruct HUI as [E1 E4]. constructor; [exact H5c'|exact E4|]. rewrite E1. exact P2.
    Qed.

    Lemma v_step_H6 c j c' : H6 c -> v_step p (Ok c) j = Ok c' -> H6 c'.
    Proof.
      intros [H5c Hvl Hed] H.
      pose proof (v_step_H5 R g0 nb0 p HU c j c' H5c H) as H5c'.
      destruct H5c as [H4c _ _ _ _ _ _]. destruct H4c as [Hg Hnb Hz Hd Ho Hp Hnx].
      unfold v_step in H. cbn [bind] in H.
      destruct (nth_error (p_v p) j) as [v|] eqn:Ev; [|discriminate].
      destruct (h_qnums v) as [|q qs] eqn:Eq; [discriminate|].
      set (nid := s_nid c) in *.
      destruct (add_node (s_g c) (mknode nid [] [] q)) as [g1|] eqn:En; [|discriminate].
      destruct (GS_add_node R _ _ _ _ _ Hg En) as [G1 [Ee1 [N1 _]]].
      destruct (add_node5 R _ _ _ En) as [_ X1].
      assert (I1 : ids R g1 = ids R (s_g c) ++ [nid]). { unfold ids. rewrite N1, map_app. reflexivity. }
      set (VI := fun cc : st => GS R (s_g cc) (nid + 1) (s_eid cc) /\ ids R (s_g cc) = ids R (s_g c) ++ [nid] /\
                   nqr R (s_g cc) nid q /\ (forall e, In e (g_edges (s_g cc)) -> eprov (s_g cc) e) /\
                   s_next cc = s_next c ++ [(mkh (h_oids v) (q :: qs) nid, k1 R)]).
      assert (HVI : VI c').
      { refine (fold_res_inv (v_inner p j nid q) VI (fun e b => eq_refl) _ _ _ _ _ H).
        - unfold VI. cbn [s_g s_nid s_eid s_next s_rem]. split; [exact G1|]. split; [exact I1|]. split; [|split; [|reflexivity]].
          + exists (mknode nid [] [] q). split; [rewrite N1; apply in_app_iff; right; left; reflexivity|auto].
          + intros e He. rewrite Ee1 in He. apply (eprov_ext _ _ _ X1). apply Hed. exact He.
        - intros cc i cc' _ [V1 [V2 [V3 [V4 V5]]]] Hi. unfold v_inner in Hi. cbn [bind] in Hi.
          destruct (negb (pmem (i, j) (s_rem cc))); [inversion Hi; subst; unfold VI; auto 10|].
          destruct (nth_error (p_u p) i) as [u|] eqn:Eu; [|discriminate].
          assert (Hin : In u (p_u p)) by (eapply nth_error_In; exact Eu).
          assert (Hul : 0 <= u_nidl u < nb0). { rewrite Forall_forall in HU. apply HU. exact Hin. }
          destruct (gamma_get (i, j) (p_gamma p)) as [cf|]; [|discriminate].
          destruct (u_q1 u =? q) eqn:Eq1; cbn [negb] in Hi; [|discriminate].
          destruct (find_node (s_g cc) (u_nidl u)) as [np|] eqn:Fnp; [|discriminate].
          destruct (n_q np =? u_q0 u) eqn:Eq0; cbn [negb] in Hi; [|discriminate].
          destruct (add_connect_edge (s_g cc) (new_edge (s_eid cc) (u_nidl u) nid [(u_oid u, cf)])) as [g2|] eqn:Ec; [|discriminate].
          inversion Hi; subst cc'. clear Hi.
          destruct (connect5 R (s_g cc) (nid + 1) (s_eid cc) (u_nidl u) nid (u_oid u) cf g2 np V1 Fnp) as [G2 [I2 [X2 [O2 [L2 E2]]]]];
            [rewrite V2; apply in_app_iff; right; left; reflexivity|lia|exact Ec|].
          unfold VI. cbn [s_g s_nid s_eid s_next s_rem]. split; [exact G2|]. split; [rewrite I2; exact V2|].
          split; [eapply nqr_ext; eauto|]. split; [|exact V5].
          intros e He. rewrite E2 in He. apply in_app_iff in He. destruct He as [He|[<-|[]]].
          + apply (eprov_ext _ _ _ X2). apply V4. exact He.
          + right. exists u, cf. split; [exact Hin|]. split; [reflexivity|]. split; [apply new_edge_single|]. split.
            * apply (nqr_ext R _ _ _ _ X2). destruct (find_node_id R _ _ _ Fnp) as [A B]. exists np. split; [exact B|]. split; [exact A|].
              apply Z.eqb_eq. exact Eq0.
            * apply Z.eqb_eq in Eq1. rewrite Eq1. apply (nqr_ext R _ _ _ _ X2). exact V3. }
      destruct HVI as [V1 [V2 [V3 [V4 V5]]]]. constructor; [exact H5c'| |exact V4].
      rewrite V5. apply Forall_app. split; [exact Hvl|]. constructor; [|constructor].
      exists v. split; [eapply nth_error_In; exact Ev|]. cbn. auto.
    Qed.

    Lemma site_step_H6 cv s s' : H6 (mkst (s_g s) (s_nid s) (s_eid s) [] (p_edges p)) -> site_step p cv s = Ok s' -> H6 s'.
    Proof.
      intros S0 H. unfold site_step in H.
      destruct (fold_left (v_step p) (snd cv) (fold_left (u_step p) (fst cv)
                  (Ok (mkst (s_g s) (s_nid s) (s_eid s) [] (p_edges p))))) as [s2|] eqn:E; [|discriminate].
      cbn [bind] in H. destruct (s_rem s2) eqn:Er; [|discriminate]. inversion H; subst s'.
      destruct (fold_left (u_step p) (fst cv) (Ok (mkst (s_g s) (s_nid s) (s_eid s) [] (p_edges p)))) as [s1|er] eqn:EU;
        [|rewrite fold_res_err in E by reflexivity; discriminate].
      assert (S1 : H6 s1).
      { refine (fold_res_inv (u_step p) H6 (fun e b => eq_refl) _ _ _ S0 _ EU). intros a b a' _ Ha Hs. eapply u_step_H6; eauto. }
      refine (fold_res_inv (v_step p) H6 (fun e b => eq_refl) _ _ _ S1 _ E). intros a b a' _ Ha Hs. eapply v_step_H6; eauto.
    Qed.
  End Site.

  Lemma H5_start (s : st) (p : part) : GS R (s_g s) (s_nid s) (s_eid s) -> zero_ok R (s_g s) -> dummy_ok R (s_g s) ->
    Z.of_nat (length (g_nodes (s_g s))) = s_nid s + 1 ->
    H5 R (s_g s) (s_nid s) p (mkst (s_g s) (s_nid s) (s_eid s) [] (p_edges p)).
  Proof.
    intros Hg Hz Hd Hcnt. constructor; cbn [s_g s_nid s_eid s_next s_rem].
    - constructor; cbn [s_g s_nid s_eid s_next]; auto; try lia.
      + intros n Hn Hl'. pose proof (gs_nb R _ _ _ Hg n Hn). lia.
      + intros e He. left. exact He.
    - apply ext_refl.
    - exact Hcnt.
    - intros n Hn. left. unfold ids. apply in_map. exact Hn.
    - intros i j u Hij Hnot. contradiction.
    - intros n Hn Hlo. pose proof (gs_nb R _ _ _ Hg n Hn). lia.
    - right. reflexivity.
  Qed.

  (* ---- the sweep ---- *)
  Section Sweep.
    Variables (idn : Z) (cs : list (chain R)).

    Definition eq_ok (g : graph) (t : nat) (e : gedge) : Prop :=
      exists c k cf, In c cs /\ (k < t)%nat /\ e_opics e = [(nth k (c_oids c ++ [idn]) 0, cf)] /\
                     nqr R g (e_from e) (nth k (c_qnums c ++ [0]) 0) /\ nqr R g (e_to e) (nth (S k) (c_qnums c ++ [0]) 0).
    Definition suffix_ok (t : nat) (hc : hchain * R) : Prop :=
      exists c, In c cs /\ h_oids (fst hc) = skipn t (c_oids c ++ [idn]) /\ h_qnums (fst hc) = skipn t (c_qnums c ++ [0]).
    Definition HW6 (s : st) (t : nat) : Prop :=
      HW5 R s t /\ Forall (suffix_ok t) (s_next s) /\ forall e, In e (g_edges (s_g s)) -> eq_ok (s_g s) t e.

    Lemma site_HW6 cover s s' t : HW6 s t -> site cover s = Ok s' -> HW6 s' (S t).
    Proof.
      intros [H5s [Hsuf Hed]] H. pose proof (site_HW5 R cover s s' t H5s H) as H5s'.
      destruct H5s as [Hg [Hz [Hd [Hcnt [Hnid [lv [Hl [Hl0 [Hnodes Hnx]]]]]]]]].
      unfold site in H. set (p := site_partition (s_next s)) in *.
      destruct (Nat.eqb (length (p_u p)) 0 || Nat.eqb (length (p_v p)) 0); [discriminate|].
      destruct (site_partition_regroup R (s_next s)) as [_ [_ [HPU HPV]]]. fold p in HPU, HPV.
      destruct (site_partition_rel R (fun _ _ => True) (s_next s) (fun _ _ => I)) as [_ [HC _]]. fold p in HC.
      assert (HU1 : Forall (fun u => 0 <= u_nidl u < s_nid s) (p_u p)).
      { apply HPU. intros hc Hh. rewrite Forall_forall in Hnx. destruct (Hnx hc Hh) as [A _]. exact A. }
      assert (HUs : Forall (fun u => exists hc, In hc (s_next s) /\ u = split_u (fst hc)) (p_u p)).
      { apply HPU. intros hc Hh. exists hc. auto. }
      assert (HVs : Forall (fun v => exists hc, In hc (s_next s) /\ v = split_v (fst hc)) (p_v p)).
      { apply HPV. intros hc Hh. exists hc. auto. }
      assert (S0 : H6 (s_g s) (s_nid s) p (mkst (s_g s) (s_nid s) (s_eid s) [] (p_edges p))).
      { constructor; [apply H5_start; assumption|constructor|]. intros e He. left. exact He. }
      destruct (site_step_H6 (s_g s) (s_nid s) p HU1 HC _ s s' S0 H) as [S5 Svl Sed].
      pose proof (h5_ext R _ _ _ _ S5) as Sext.
      split; [exact H5s'|]. split.
      - eapply Forall_impl; [|exact Svl]. intros hc [v [Hv [Eo Eqn]]].
        rewrite Forall_forall in HVs. destruct (HVs v Hv) as [hc0 [Hhc0 ->]].
        rewrite Forall_forall in Hsuf. destruct (Hsuf hc0 Hhc0) as [c [Hc [Eo0 Eq0]]].
        exists c. split; [exact Hc|]. rewrite Eo, Eqn. unfold split_v. cbn [h_oids h_qnums]. rewrite Eo0, Eq0, !tl_skipn. auto.
      - intros e He. destruct (Sed e He) as [Hold|[u [cf [Hu [Ef [Eop [Q0 Q1]]]]]]].
        + destruct (Hed e Hold) as [c [k [cf [Hc [Hk [Eo [A B]]]]]]]. exists c, k, cf.
          split; [exact Hc|]. split; [lia|]. split; [exact Eo|]. split; eapply nqr_ext; eauto.
        + rewrite Forall_forall in HUs. destruct (HUs u Hu) as [hc0 [Hhc0 ->]].
          rewrite Forall_forall in Hsuf. destruct (Hsuf hc0 Hhc0) as [c [Hc [Eo0 Eq0]]].
          unfold split_u in Eop, Q0, Q1. cbn [u_oid u_q0 u_q1] in Eop, Q0, Q1.
          rewrite Eo0, hd_skipn in Eop. rewrite Eq0, hd_skipn in Q0. rewrite Eq0, tl_skipn, hd_skipn in Q1.
          exists c, t, cf. split; [exact Hc|]. split; [lia|]. auto.
    Qed.

    Lemma sweep_HW6 cover : forall n s s' t, HW6 s t -> sweep cover n s = Ok s' -> HW6 s' (t + n).
    Proof.
      induction n as [|n IH]; intros s s' t HS H; simpl in H.
      - inversion H; subst. rewrite Nat.add_0_r. exact HS.
      - destruct (site cover s) as [s1|] eqn:E; [|discriminate]. cbn [bind] in H.
        replace (t + S n)%nat with (S t + n)%nat by lia. eapply IH; [|exact H]. eapply site_HW6; eauto.
    Qed.

    Lemma HW6_init : cs <> [] -> HW6 (mkst init_graph 1 0 (init_next idn cs) []) 0.
    Proof.
      intros Hne. split; [apply HW5_init; exact Hne|]. cbn [s_g s_next]. split; [|intros e []].
      unfold init_next. rewrite Forall_map. apply Forall_forall. intros c Hc. exists c. cbn. auto.
    Qed.
  End Sweep.

  Lemma pad_all_rel L idn : forall (l l' : list (chain R)), pad_all L idn l = Ok l' ->
    forall c', In c' l' -> exists c, In c l /\ c_oids c' = padded_oids L idn c /\ c_qnums c' = padded_qnums L c /\ length (c_oids c') = L.
  Proof.
    induction l as [|c l IH]; intros l' H c' Hc'; simpl in H.
    - inversion H; subst. destruct Hc'.
    - destruct (padded L idn c) as [c1|] eqn:Ec; [|discriminate]. cbn [bind] in H.
      destruct (pad_all L idn l) as [t'|] eqn:Et; [|discriminate]. cbn [bind] in H. inversion H; subst.
      destruct Hc' as [<-|Hc'].
      + destruct (padded_spec2 R _ _ _ _ Ec) as [A B]. destruct (padded_spec R _ _ _ _ Ec) as [_ [_ C]].
        exists c. split; [left; reflexivity|auto].
      + destruct (IH t' eq_refl c' Hc') as [c2 [A B]]. exists c2. split; [right; exact A|exact B].
  Qed.

  (* clause (c): every edge is one operator of one (non-zero) chain at one position k < L, and its end nodes carry that
     chain's interleaved charges qnums[k], qnums[k+1]; any cover oracle *)
  Theorem from_opchains_charges cover (chains : list (chain R)) L idn g : (1 <= L)%nat ->
    from_opchains cover chains L idn = Ok g ->
    forall e, In e (g_edges g) ->
      exists c k cf, In c chains /\ nonzero c = true /\ (k < L)%nat /\
        e_opics e = [(nth k (padded_oids L idn c) 0, cf)] /\
        nqr R g (e_from e) (nth k (padded_qnums L c) 0) /\ nqr R g (e_to e) (nth (S k) (padded_qnums L c) 0).
  Proof.
    intros HL H. unfold from_opchains in H.
    destruct (negb (forallb (@chain_ok R) chains)); [discriminate|].
    destruct chains as [|c0 ct] eqn:Ech; [discriminate|]. rewrite <- Ech in *. clear Ech c0 ct.
    destruct (pad_all L idn (filter (@nonzero R) chains)) as [cs|] eqn:Ep; [|discriminate]. cbn [bind] in H.
    destruct (sweep cover L (mkst init_graph 1 0 (init_next idn cs) [])) as [s|] eqn:Es; [|discriminate]. cbn [bind] in H.
    assert (Hne : cs <> []).
    { destruct L as [|L']; [lia|]. cbn [sweep] in Es.
      destruct (site cover (mkst init_graph 1 0 (init_next idn cs) [])) as [s1|] eqn:E1; [|discriminate].
      apply site_next_ne in E1. cbn [s_next] in E1. intros ->. apply E1. reflexivity. }
    pose proof (sweep_HW6 idn cs cover L _ _ O (HW6_init idn cs Hne) Es) as [H5s [_ Hed]]. cbn [plus] in H5s, Hed.
    destruct H5s as [Hg _].
    assert (Fin : forall (g' : graph) t1, GS R g' (s_nid s) (s_eid s) -> g_nodes g' = g_nodes (s_g s) ->
                    (forall e, In e (g_edges g') -> eq_ok idn cs (s_g s) L e) ->
                    forall e, In e (g_edges (remove_node (mkgraph (g_nodes g') (g_edges g') (g_t0 g') t1) (-1))) ->
                      exists c k cf, In c chains /\ nonzero c = true /\ (k < L)%nat /\
                        e_opics e = [(nth k (padded_oids L idn c) 0, cf)] /\
                        nqr R (remove_node (mkgraph (g_nodes g') (g_edges g') (g_t0 g') t1) (-1)) (e_from e) (nth k (padded_qnums L c) 0) /\
                        nqr R (remove_node (mkgraph (g_nodes g') (g_edges g') (g_t0 g') t1) (-1)) (e_to e) (nth (S k) (padded_qnums L c) 0)).
    { intros g' t1 Hg' En' Hed' e He. change (In e (g_edges g')) in He.
      destruct (Hed' e He) as [c [k [cf [Hc [Hk [Eo [A B]]]]]]].
      destruct (pad_all_rel L idn _ _ Ep c Hc) as [c0 [Hc0 [Eoid [Eqn Elen]]]]. apply filter_In in Hc0. destruct Hc0 as [Hin Hnz].
      pose proof (gs_lt R _ _ _ Hg' e He) as Hlt.
      assert (Keep : forall m q, 0 <= m -> nqr R (s_g s) m q -> nqr R (remove_node (mkgraph (g_nodes g') (g_edges g') (g_t0 g') t1) (-1)) m q).
      { intros m q Hm [n [Hn [En Eq]]]. exists n. split; [|auto]. unfold remove_node. cbn [g_nodes]. apply filter_In.
        split; [rewrite En'; exact Hn|]. apply negb_true_iff, Z.eqb_neq. lia. }
      exists c0, k, cf. split; [exact Hin|]. split; [exact Hnz|]. split; [exact Hk|]. split; [|split].
      - rewrite Eo, app_nth1 by lia. rewrite Eoid. reflexivity.
      - rewrite nth_app_default, Eqn in A. apply Keep; [lia|exact A].
      - rewrite nth_app_default, Eqn in B. apply Keep; [lia|exact B]. }
    unfold finish in H. destruct (s_next s) as [|[h c] [|? ?]] eqn:En; try discriminate.
    destruct (keqb R c (k1 R)); cbn [bind] in H.
    - inversion H; subst g. apply Fin; auto.
    - unfold absorb in H. destruct (find_node (s_g s) (h_nidl h)) as [n|]; [|discriminate].
      destruct (n_in n) as [|eid [|? ?]]; try discriminate. destruct (find_edge (s_g s) eid); [|discriminate].
      cbn [bind] in H. inversion H; subst g.
      apply (Fin (upd_edge (s_g s) eid (fun e : gedge => mkedge (e_id e) (e_from e) (e_to e) (map (fun p => (fst p, kmul R c (snd p))) (e_opics e)))));
        [apply GS_scale; exact Hg|reflexivity|].
      intros e' He'. unfold upd_edge in He'. cbn [g_edges] in He'. apply in_map_iff in He'. destruct He' as [e [<- He]].
      destruct (Hed e He) as [c1 [k [cf [Hc [Hk [Eo [A B]]]]]]].
      destruct (e_id e =? eid).
      + exists c1, k, (kmul R c cf). cbn [e_opics e_from e_to]. rewrite Eo. cbn. auto.
      + exists c1, k, cf. auto.
  Qed.
End Q.
