(* C17, from_automaton: the unrolled graph is well formed in the sense of C16 (in particular it has no dangling
   nodes and passes is_consistent) and has exactly the requested length.
   Part A: what "active = forward reachable and backward co-reachable" gives for a consistent automaton:
           every active node of layer i+1 has an active in-edge from an active node of layer i, and
           every active node of layer i < L has an active out-edge into an active node of layer i+1.
   Part B: invariant of the layer-wise sweep (levels, cross references, in/out edges of every finished node).
   Part C: assembly. *)
From Coq Require Import ZArith List Lia Bool Permutation.
From PT Require Import Base.Scalar Base.BigSum Model.OpGraph Model.Rewrites Model.C17Common Model.AutOp
                       Proofs.RewritesBase Proofs.RewritesConsistent
                       Proofs.C17GraphSem Proofs.C17AutOp Proofs.C17AutPath Proofs.C17LenBase.
Import ListNotations.
Open Scope Z_scope.

(* strictly increasing lists (the model's sets of node ids) *)
Fixpoint zinc (l : list Z) : Prop :=
  match l with [] => True | x :: t => (forall y, In y t -> x < y) /\ zinc t end.
Lemma zset_add_zinc x s : zinc s -> zinc (zset_add x s).
Proof.
  induction s as [|z t IH]; intros H; cbn [zset_add].
  - cbn. split; [intros y []|exact I].
  - destruct H as [H1 H2]. destruct (Z.ltb_spec x z) as [Hlt|Hge].
    + cbn [zinc]. split; [|split; assumption]. intros y [<-|Hy]; [exact Hlt|]. specialize (H1 y Hy). lia.
    + destruct (Z.eqb_spec x z) as [->|Hne]; [split; assumption|].
      cbn [zinc]. split; [|apply IH; exact H2]. intros y Hy. apply zset_add_in in Hy. destruct Hy as [->|Hy]; [lia|auto].
Qed.
Lemma zinc_NoDup l : zinc l -> NoDup l.
Proof.
  induction l as [|x t IH]; intros H; [constructor|]. destruct H as [H1 H2]. constructor; [|auto].
  intros Hin. specialize (H1 x Hin). lia.
Qed.

Lemma index_of_some x l : In x l -> exists idx, index_of x l = Some idx.
Proof.
  induction l as [|y t IH]; intros H; [destruct H|]. cbn [index_of]. destruct (Z.eqb_spec x y) as [|Hne]; [eauto|].
  destruct H as [->|H]; [congruence|]. destruct (IH H) as [idx E]. rewrite E. cbn. eauto.
Qed.
Lemma index_of_nodup l : NoDup l -> forall idx x, nth_error l idx = Some x -> index_of x l = Some idx.
Proof.
  induction l as [|y t IH]; intros Hnd idx x H; [destruct idx; discriminate|]. inversion Hnd; subst.
  destruct idx as [|idx]; cbn in H.
  - inversion H; subst. cbn. rewrite Z.eqb_refl. reflexivity.
  - cbn [index_of]. destruct (Z.eqb_spec x y) as [->|Hne].
    + exfalso. apply nth_error_In in H. contradiction.
    + rewrite (IH ltac:(assumption) idx x H). reflexivity.
Qed.
Lemma nth_error_same_length {A B} (l1 : list A) (l2 : list B) idx a :
  length l1 = length l2 -> nth_error l1 idx = Some a -> exists b, nth_error l2 idx = Some b.
Proof.
  intros Hlen H. assert (Hlt : (idx < length l2)%nat) by (rewrite <- Hlen; apply nth_error_Some; congruence).
  destruct (nth_error l2 idx) as [b|] eqn:E; [eauto|]. apply nth_error_None in E. lia.
Qed.

Section LenAut.
  Variable R : cring.
  Notation graph := (graph R).
  Notation gedge := (gedge R).
  Notation aedge := (aedge R).
  Variable aut : autop R.

  (* ================= Part A ================= *)
  Lemma fold_step_edge_complete dir i : forall eids s s',
    fold_left (step_edge R aut dir i) eids (Ok s) = Ok s' -> zinc s ->
    zinc s' /\ forall y, In y s' -> In y s \/
      exists eid e, In eid eids /\ afind_edge aut eid = Some e /\ ae_active e i = true /\ ae_nid e dir = y.
  Proof.
    induction eids as [|eid t IH]; intros s s' H Hz.
    - cbn in H. inversion H; subst. split; [exact Hz|]. intros y Hy. left. exact Hy.
    - change (fold_left (step_edge R aut dir i) t (step_edge R aut dir i (Ok s) eid) = Ok s') in H.
      unfold step_edge at 2 in H. cbn [bind] in H.
      destruct (afind_edge aut eid) as [e|] eqn:He; [|rewrite fold_step_edge_err in H; discriminate].
      destruct (IH _ _ H) as [Z1 C1].
      { destruct (ae_active e i); [apply zset_add_zinc|]; exact Hz. }
      split; [exact Z1|]. intros y Hy. destruct (C1 y Hy) as [Hin|[eid0 [e0 [G1 G2]]]].
      + destruct (ae_active e i) eqn:Hact; [|left; exact Hin]. apply zset_add_in in Hin. destruct Hin as [->|Hin]; [|left; exact Hin].
        right. exists eid, e. split; [left; reflexivity|]. auto.
      + right. exists eid0, e0. split; [right; exact G1|exact G2].
  Qed.

  Lemma fold_step_node_complete dir i : forall prev s s',
    fold_left (step_node R aut dir i) prev (Ok s) = Ok s' -> zinc s ->
    zinc s' /\ forall y, In y s' -> In y s \/
      exists nid n eid e, In nid prev /\ afind_node aut nid = Some n /\ In eid (node_eids n dir) /\
        afind_edge aut eid = Some e /\ ae_active e i = true /\ ae_nid e dir = y.
  Proof.
    induction prev as [|nid t IH]; intros s s' H Hz.
    - cbn in H. inversion H; subst. split; [exact Hz|]. intros y Hy. left. exact Hy.
    - change (fold_left (step_node R aut dir i) t (step_node R aut dir i (Ok s) nid) = Ok s') in H.
      unfold step_node at 2 in H. cbn [bind] in H.
      destruct (afind_node aut nid) as [n|] eqn:Hn; [|rewrite fold_step_node_err in H; discriminate].
      destruct (fold_left (step_edge R aut dir i) (node_eids n dir) (Ok s)) as [s1|] eqn:Hs1;
        [|rewrite fold_step_node_err in H; discriminate].
      destruct (fold_step_edge_complete _ _ _ _ _ Hs1 Hz) as [Z1 C1].
      destruct (IH _ _ H Z1) as [Z2 C2]. split; [exact Z2|].
      intros y Hy. destruct (C2 y Hy) as [Hin|[nid0 [n0 [eid [e [G1 G2]]]]]].
      + destruct (C1 y Hin) as [Hin'|[eid [e [G1 G2]]]]; [left; exact Hin'|].
        right. exists nid, n, eid, e. split; [left; reflexivity|]. split; [exact Hn|]. split; [exact G1|exact G2].
      + right. exists nid0, n0, eid, e. split; [right; exact G1|exact G2].
  Qed.

  Lemma step_complete dir i prev s' : step aut dir i prev = Ok s' ->
    zinc s' /\ forall y, In y s' ->
      exists nid n eid e, In nid prev /\ afind_node aut nid = Some n /\ In eid (node_eids n dir) /\
        afind_edge aut eid = Some e /\ ae_active e i = true /\ ae_nid e dir = y.
  Proof.
    intros H. destruct (fold_step_node_complete dir i prev [] s' H I) as [Z1 C1]. split; [exact Z1|].
    intros y Hy. destruct (C1 y Hy) as [[]|Hex]. exact Hex.
  Qed.

  Lemma fwd_zinc i s : fwd aut i = Ok s -> zinc s.
  Proof.
    destruct i as [|j]; cbn [fwd]; intros H.
    - inversion H; subst. cbn. split; [intros y []|exact I].
    - destruct (fwd aut j) as [s1|]; cbn [bind] in H; [|discriminate]. apply (step_complete _ _ _ _ H).
  Qed.
  Lemma back_zinc L k s : back aut L k = Ok s -> zinc s.
  Proof.
    destruct k as [|k']; cbn [back]; intros H.
    - inversion H; subst. cbn. split; [intros y []|exact I].
    - destruct (back aut L k') as [s1|]; cbn [bind] in H; [|discriminate]. apply (step_complete _ _ _ _ H).
  Qed.

  Hypothesis Hcons : aut_consistent aut = true.
  Variable L : nat.
  Variable all : list (list Z).
  Hypothesis Hall : active_layers aut L = Ok all.
  Let acts := fun i => nth i all [].

  Lemma back_S i s0 : (i < L)%nat -> back aut L (L - i) = Ok s0 ->
    exists s0', back aut L (L - S i) = Ok s0' /\ step aut 0 i s0' = Ok s0.
  Proof.
    intros Hi H. replace (L - i)%nat with (S (L - S i))%nat in H by lia. cbn [back] in H.
    destruct (back aut L (L - S i)) as [s0'|]; cbn [bind] in H; [|discriminate].
    replace (L - S (L - S i))%nat with i in H by lia. exists s0'. split; [reflexivity|exact H].
  Qed.

  Lemma acts_NoDup i : (i <= L)%nat -> NoDup (acts i).
  Proof.
    intros Hi. destruct (layer_parts R aut L all Hall i Hi) as [s0 [s1 [H0 [H1 E]]]]. unfold acts. rewrite E.
    apply NoDup_filter. apply zinc_NoDup. eapply back_zinc. exact H0.
  Qed.

  Lemma anode_refs (n : gnode) eid e dir : In n (a_nodes aut) -> (dir <= 1)%nat -> In eid (node_eids n dir) ->
    afind_edge aut eid = Some e -> ae_nid e (1 - dir) = n_id n.
  Proof.
    intros Hn Hd Hin He. destruct (cons_parts R aut Hcons) as [_ [Hnodes _]]. destruct (Hnodes n Hn) as [_ [_ Hrefs]].
    unfold anode_refs_ok in Hrefs. rewrite forallb_forall in Hrefs.
    assert (Hd' : In dir [0%nat; 1%nat]) by (cbn; lia). specialize (Hrefs dir Hd'). rewrite forallb_forall in Hrefs.
    specialize (Hrefs eid Hin). rewrite He in Hrefs. apply Z.eqb_eq in Hrefs. exact Hrefs.
  Qed.

  (* an active automaton edge at site i from x into a, listed by a *)
  Definition feeds (i : nat) (x a : Z) : Prop :=
    exists na eid e, afind_node aut a = Some na /\ In eid (n_in na) /\ afind_edge aut eid = Some e /\
                     ae_active e i = true /\ ae_from e = x.

  Lemma active_in_edge i a : (i < L)%nat -> In a (acts (S i)) -> exists x, In x (acts i) /\ feeds i x a.
  Proof.
    intros Hi Ha.
    destruct (layer_parts R aut L all Hall (S i) ltac:(lia)) as [t0 [t1 [Hb1 [Hf1 E1]]]].
    destruct (layer_parts R aut L all Hall i ltac:(lia)) as [s0 [s1 [Hb0 [Hf0 E0]]]].
    fold (acts (S i)) in E1. fold (acts i) in E0. rewrite E1 in Ha. apply filter_In in Ha. destruct Ha as [Ha0 Ha1].
    apply zmem_in in Ha1.
    cbn [fwd] in Hf1. rewrite Hf0 in Hf1. cbn [bind] in Hf1.
    destruct (step_complete 1 i s1 t1 Hf1) as [_ C]. destruct (C a Ha1) as [x [nx [eid [e [Hx [Hnx [Hin [He [Hact Hto]]]]]]]]].
    cbn [ae_nid] in Hto. cbn [node_eids] in Hin.
    destruct (afind_edge_some R aut eid e He) as [Hee Heid]. destruct (afind_node_some R aut x nx Hnx) as [Hnxin Hnxid].
    pose proof (anode_refs nx eid e 1%nat Hnxin (le_n _) Hin He) as Hfrom. cbn [ae_nid Nat.sub] in Hfrom.
    destruct (edge_ends R aut Hcons e Hee) as [_ [na [Hna Hina]]]. rewrite Hto in Hna. rewrite Heid in Hina.
    destruct (back_S i s0 Hi Hb0) as [s0' [Hb' Hstep]]. rewrite Hb1 in Hb'. inversion Hb'; subst s0'.
    exists x. split.
    - rewrite E0. apply filter_In. split; [|apply zmem_in; exact Hx].
      rewrite <- Hnxid, <- Hfrom. apply (step_sound R aut 0 i t0 s0 a na eid e Hstep Ha0 Hna Hina He Hact).
    - exists na, eid, e. repeat split; auto. congruence.
  Qed.

  Lemma active_out_edge i x : (i < L)%nat -> In x (acts i) -> exists a, In a (acts (S i)) /\ feeds i x a.
  Proof.
    intros Hi Hx.
    destruct (layer_parts R aut L all Hall (S i) ltac:(lia)) as [t0 [t1 [Hb1 [Hf1 E1]]]].
    destruct (layer_parts R aut L all Hall i ltac:(lia)) as [s0 [s1 [Hb0 [Hf0 E0]]]].
    fold (acts (S i)) in E1. fold (acts i) in E0. rewrite E0 in Hx. apply filter_In in Hx. destruct Hx as [Hx0 Hx1].
    apply zmem_in in Hx1.
    destruct (back_S i s0 Hi Hb0) as [s0' [Hb' Hstep]]. rewrite Hb1 in Hb'. inversion Hb'; subst s0'.
    destruct (step_complete 0 i t0 s0 Hstep) as [_ C]. destruct (C x Hx0) as [a [na [eid [e [Ha [Hna [Hin [He [Hact Hfrom]]]]]]]]].
    cbn [ae_nid] in Hfrom. cbn [node_eids] in Hin.
    destruct (afind_edge_some R aut eid e He) as [Hee Heid]. destruct (afind_node_some R aut a na Hna) as [Hnain Hnaid].
    pose proof (anode_refs na eid e 0%nat Hnain (le_S _ _ (le_n _)) Hin He) as Hto. cbn [ae_nid Nat.sub] in Hto.
    destruct (edge_ends R aut Hcons e Hee) as [[nx [Hnx Hinx]] _]. rewrite Hfrom in Hnx. rewrite Heid in Hinx.
    cbn [fwd] in Hf1. rewrite Hf0 in Hf1. cbn [bind] in Hf1.
    exists a. split.
    - rewrite E1. apply filter_In. split; [exact Ha|]. apply zmem_in.
      rewrite <- Hnaid, <- Hto. apply (step_sound R aut 1 i s1 t1 x nx eid e Hf1 Hx1 Hnx Hinx He Hact).
    - exists na, eid, e. repeat split; auto.
  Qed.

  (* ================= Part B ================= *)
  Record GInv (i : nat) (act_i map_i : list Z) (st : bstate R) (lay done : list Z) (lv : Z -> Z) : Prop := mkGInv {
    gi_pw : PW R (b_g st) lv;
    gi_t : g_t0 (b_g st) = 0;
    gi_d : In (-1) (nids R (b_g st)) /\ isolated R (b_g st) (-1);
    gi_0 : In 0 (nids R (b_g st)) /\ lv 0 = 0;
    gi_old : forall x, In x (nids R (b_g st)) ->
               x = -1 \/ In x lay \/ In x map_i \/ (0 <= lv x < Z.of_nat i /\ hasout R (b_g st) x);
    gi_in : forall x, In x (nids R (b_g st)) -> x <> -1 -> x <> 0 -> hasin R (b_g st) x;
    gi_map : forall m, In m map_i -> In m (nids R (b_g st)) /\ lv m = Z.of_nat i /\ m <> -1;
    gi_lay : forall m, In m lay -> In m (nids R (b_g st)) /\ lv m = Z.of_nat i + 1 /\ m <> -1;
    gi_len : length map_i = length act_i /\ length lay = length done;
    gi_feed : forall idx x m a, nth_error act_i idx = Some x -> nth_error map_i idx = Some m -> In a done ->
                feeds i x a -> hasout R (b_g st) m;
    gi_lt : forall x, In x (nids R (b_g st)) -> x < b_nid st;
    gi_last : lay <> [] -> last lay 0 = b_nid st - 1;
    gi_lastm : lay = [] -> map_i <> [] -> last map_i 0 = b_nid st - 1 }.

  (* ---- the incoming edges of one new node m' ---- *)
  Lemma build_edges_len i act_i map_i m' lv : forall es st st',
    fold_left (build_edge i act_i map_i m') es (Ok st) = Ok st' ->
    PW R (b_g st) lv -> In m' (nids R (b_g st)) -> lv m' = Z.of_nat i + 1 -> m' <> -1 ->
    (forall m, In m map_i -> In m (nids R (b_g st)) /\ lv m = Z.of_nat i /\ m <> -1) ->
    PW R (b_g st') lv /\ nids R (b_g st') = nids R (b_g st) /\
    g_t0 (b_g st') = g_t0 (b_g st) /\ b_nid st' = b_nid st /\
    (forall x, hasin R (b_g st) x -> hasin R (b_g st') x) /\ (forall x, hasout R (b_g st) x -> hasout R (b_g st') x) /\
    (isolated R (b_g st) (-1) -> isolated R (b_g st') (-1)) /\
    (forall e idx m, In e es -> ae_active e i = true -> index_of (ae_from e) act_i = Some idx ->
       nth_error map_i idx = Some m -> hasout R (b_g st') m /\ hasin R (b_g st') m').
  Proof.
    induction es as [|ea t IH]; intros st st' H W Hm' Hlm' Hne Hmap.
    - cbn in H. inversion H; subst. repeat (split; [solve [auto]|]). intros e idx m [].
    - change (fold_left (build_edge i act_i map_i m') t (build_edge i act_i map_i m' (Ok st) ea) = Ok st') in H.
      destruct (build_edge i act_i map_i m' (Ok st) ea) as [st1|err] eqn:E1;
        [|rewrite fold_build_edge_err in H; discriminate].
      unfold build_edge in E1. cbn [bind] in E1.
      destruct (ae_active ea i) eqn:Hact; cbn [negb] in E1.
      2:{ inversion E1; subst st1. destruct (IH st st' H W Hm' Hlm' Hne Hmap) as (A1 & A2 & A3 & A4 & A5 & A6 & A7 & A8).
          repeat (split; [solve [auto]|]). intros e idx m [<-|He] Ha; [congruence|]. eapply A8; eauto. }
      destruct (index_of (ae_from ea) act_i) as [idx0|] eqn:Hidx.
      2:{ inversion E1; subst st1. destruct (IH st st' H W Hm' Hlm' Hne Hmap) as (A1 & A2 & A3 & A4 & A5 & A6 & A7 & A8).
          repeat (split; [solve [auto]|]). intros e idx m [<-|He] Ha Hi; [congruence|]. eapply A8; eauto. }
      destruct (nth_error map_i idx0) as [m0|] eqn:Hm0; [|discriminate].
      destruct (add_connect_edge (b_g st) (new_edge (b_eid st) m0 m' (ae_opics ea i))) as [g'|] eqn:Hadd;
        cbn [of_opt bind] in E1; [|discriminate].
      inversion E1; subst st1; clear E1.
      assert (Hin0 : In m0 map_i) by (eapply nth_error_In; eauto).
      destruct (Hmap m0 Hin0) as [Hm0n [Hm0l Hm0ne]].
      destruct (add_connect_edge_PW R (b_g st) g' lv (new_edge (b_eid st) m0 m' (ae_opics ea i)) W Hm0n Hm' ltac:(cbn; lia)
                  (new_edge_sorted R _ _ _ _) Hadd) as (B1 & B2 & B3 & B4 & B5 & B6 & B7 & B8 & B9 & B10).
      cbn [new_edge e_to e_from] in B8, B9, B10.
      destruct (IH (mkb g' (b_nid st) (b_eid st + 1)) st' H) as (A1 & A2 & A3 & A4 & A5 & A6 & A7 & A8); cbn [b_g b_nid]; auto.
      { rewrite B2. exact Hm'. }
      { intros m Hm. rewrite B2. apply Hmap. exact Hm. }
      cbn [b_g b_nid] in *.
      split; [exact A1|]. split; [congruence|]. split; [congruence|]. split; [exact A4|].
      split; [auto|]. split; [auto|]. split; [intros Hiso; apply A7; apply B10; auto|].
      intros e idx m [<-|He] Ha Hi Hn.
      + rewrite Hidx in Hi. inversion Hi; subst idx0. rewrite Hm0 in Hn. inversion Hn; subst m0. split; auto.
      + eapply A8; eauto.
  Qed.

  (* ---- one new node ---- *)
  Lemma build_node_len i act_i map_i na st lay done st' lay' lv :
    build_node aut i act_i map_i (Ok (st, lay)) na = Ok (st', lay') ->
    GInv i act_i map_i st lay done lv -> NoDup act_i -> afind_node aut (n_id na) = Some na ->
    (exists x, In x act_i /\ feeds i x (n_id na)) ->
    exists lv', GInv i act_i map_i st' lay' (done ++ [n_id na]) lv'.
  Proof.
    intros H HGI Hnd Hfind Hfeed. destruct HGI as [W T D Z0 Hold Hin Hmap Hlay [Hlen1 Hlen2] Hfd Hlt Hlast Hlastm].
    unfold build_node in H. cbn [bind fst snd] in H.
    destruct (add_node (b_g st) (mknode (b_nid st) [] [] (n_q na))) as [g1|] eqn:Hadd; cbn [of_opt bind] in H; [|discriminate].
    destruct (lookup_edges aut (n_in na)) as [es|] eqn:Hlk; cbn [bind] in H; [|discriminate].
    destruct (fold_left (build_edge i act_i map_i (b_nid st)) es (Ok (mkb g1 (b_nid st + 1) (b_eid st))))
      as [st1|] eqn:Hfold; cbn [bind] in H; [|discriminate].
    inversion H; subst st1 lay'; clear H. apply lookup_edges_ok in Hlk.
    set (m' := b_nid st) in *.
    set (lv' := fun x => if x =? m' then Z.of_nat i + 1 else lv x).
    destruct (add_node_PW R (b_g st) g1 lv m' (n_q na) W Hadd) as (W1 & Hfresh & Hids1 & Hns1 & Hes1 & T01 & T11).
    destruct (add_node_mono R (b_g st) g1 m' (n_q na) Hns1) as (M1 & M2 & M3).
    assert (Hag : forall x, In x (nids R (b_g st)) -> lv' x = lv x).
    { intros x Hx. unfold lv'. destruct (Z.eqb_spec x m') as [->|]; [contradiction|reflexivity]. }
    assert (Hne1 : m' <> -1). { intros E. apply Hfresh. rewrite E. apply D. }
    assert (W1' : PW R g1 lv').
    { destruct (add_node_PW R (b_g st) g1 lv' m' (n_q na) (PW_lv_ext R _ lv lv' W Hag) Hadd) as [X _]. exact X. }
    assert (Hm'1 : In m' (nids R g1)) by (rewrite Hids1; apply in_or_app; right; left; reflexivity).
    assert (Hlm' : lv' m' = Z.of_nat i + 1) by (unfold lv'; rewrite Z.eqb_refl; reflexivity).
    destruct (build_edges_len i act_i map_i m' lv' es _ _ Hfold W1' Hm'1 Hlm' Hne1) as (A1 & A2 & A3 & A4 & A5 & A6 & A7 & A8).
    { cbn [b_g]. intros m Hm. destruct (Hmap m Hm) as [X1 [X2 X3]]. split; [rewrite Hids1; apply in_or_app; left; exact X1|].
      split; [rewrite Hag by exact X1; exact X2|exact X3]. }
    cbn [b_g b_nid] in *.
    assert (Hids' : nids R (b_g st') = nids R (b_g st) ++ [m']) by congruence.
    assert (Hmono_in : forall x, hasin R (b_g st) x -> hasin R (b_g st') x) by auto.
    assert (Hmono_out : forall x, hasout R (b_g st) x -> hasout R (b_g st') x) by auto.
    (* the new node has an in-edge *)
    assert (Hin_new : hasin R (b_g st') m').
    { destruct Hfeed as [x [Hx [na' [eid [e [Hna' [Hineid [He [Hact Hfrom]]]]]]]]].
      rewrite Hfind in Hna'. inversion Hna'; subst na'.
      destruct (index_of_some x act_i Hx) as [idx Hidx].
      destruct (nth_error_same_length act_i map_i idx x (eq_sym Hlen1) (index_of_nth _ _ _ Hidx)) as [m Hm].
      apply (A8 e idx m); auto.
      - rewrite Hlk. apply in_edges_in. exists eid. auto.
      - rewrite Hfrom. exact Hidx. }
    exists lv'. constructor; auto.
    - congruence.
    - split; [rewrite Hids'; apply in_or_app; left; apply D|]. apply A7. apply M3. apply D.
    - split; [rewrite Hids'; apply in_or_app; left; apply Z0|]. rewrite Hag by apply Z0. apply Z0.
    - intros x Hx. rewrite Hids' in Hx. apply in_app_or in Hx. destruct Hx as [Hx|[<-|[]]].
      + destruct (Hold x Hx) as [E|[E|[E|[E1 E2]]]]; auto.
        * right. left. apply in_or_app. left. exact E.
        * right. right. right. rewrite Hag by exact Hx. split; auto.
      + right. left. apply in_or_app. right. left. reflexivity.
    - intros x Hx Hx1 Hx0. rewrite Hids' in Hx. apply in_app_or in Hx. destruct Hx as [Hx|[<-|[]]]; auto.
    - intros m Hm. destruct (Hmap m Hm) as [X1 [X2 X3]]. split; [rewrite Hids'; apply in_or_app; left; exact X1|].
      split; [rewrite Hag by exact X1; exact X2|exact X3].
    - intros m Hm. apply in_app_or in Hm. destruct Hm as [Hm|[<-|[]]].
      + destruct (Hlay m Hm) as [X1 [X2 X3]]. split; [rewrite Hids'; apply in_or_app; left; exact X1|].
        split; [rewrite Hag by exact X1; exact X2|exact X3].
      + split; [rewrite Hids'; apply in_or_app; right; left; reflexivity|]. split; assumption.
    - split; [exact Hlen1|]. rewrite !app_length. cbn [length]. lia.
    - intros idx x m a Hx Hm Ha Hf. apply in_app_or in Ha. destruct Ha as [Ha|[<-|[]]].
      + apply Hmono_out. eapply Hfd; eauto.
      + destruct Hf as [na' [eid [e [Hna' [Hineid [He [Hact Hfrom]]]]]]].
        rewrite Hfind in Hna'. inversion Hna'; subst na'.
        apply (A8 e idx m); auto.
        * rewrite Hlk. apply in_edges_in. exists eid. auto.
        * rewrite Hfrom. apply index_of_nodup; assumption.
    - intros x Hx. rewrite Hids' in Hx. rewrite A4. apply in_app_or in Hx. destruct Hx as [Hx|[<-|[]]]; [|unfold m'; lia].
      specialize (Hlt x Hx). fold m' in Hlt. lia.
    - intros _. rewrite last_last, A4. unfold m'. lia.
    - intros E. destruct lay; discriminate.
  Qed.

  (* ---- one layer ---- *)
  Lemma build_nodes_len i act_i map_i : forall nas as_ st lay done st' lay' lv,
    Forall2 (fun a n => afind_node aut a = Some n) as_ nas ->
    fold_left (build_node aut i act_i map_i) nas (Ok (st, lay)) = Ok (st', lay') ->
    GInv i act_i map_i st lay done lv -> NoDup act_i ->
    (forall a, In a as_ -> exists x, In x act_i /\ feeds i x a) ->
    exists lv', GInv i act_i map_i st' lay' (done ++ as_) lv'.
  Proof.
    induction nas as [|na t IH]; intros as_ st lay done st' lay' lv Hf H HGI Hnd Hfeed.
    - inversion Hf; subst. cbn in H. inversion H; subst. exists lv. rewrite app_nil_r. exact HGI.
    - inversion Hf as [|a na' as_t t' Ha Hft]; subst.
      change (fold_left (build_node aut i act_i map_i) t (build_node aut i act_i map_i (Ok (st, lay)) na) = Ok (st', lay')) in H.
      destruct (build_node aut i act_i map_i (Ok (st, lay)) na) as [[st1 lay1]|err] eqn:E1;
        [|rewrite fold_build_node_err in H; discriminate].
      pose proof (afind_node_id R aut _ _ Ha) as Hid.
      destruct (build_node_len i act_i map_i na st lay done st1 lay1 lv E1 HGI Hnd) as [lv1 HGI1].
      { rewrite Hid. exact Ha. }
      { rewrite Hid. apply Hfeed. left. reflexivity. }
      destruct (IH as_t st1 lay1 (done ++ [n_id na]) st' lay' lv1 Hft H HGI1 Hnd) as [lv' HGI'].
      { intros a0 Ha0. apply Hfeed. right. exact Ha0. }
      exists lv'. rewrite <- app_assoc in HGI'. cbn [app] in HGI'. rewrite Hid in HGI'. exact HGI'.
  Qed.

  Lemma GInv_next i act_i map_i st lay act_next lv :
    GInv i act_i map_i st lay act_next lv ->
    (forall x, In x act_i -> exists a, In a act_next /\ feeds i x a) ->
    GInv (S i) act_next lay st [] [] lv.
  Proof.
    intros [W T D Z0 Hold Hin Hmap Hlay [Hlen1 Hlen2] Hfd Hlt Hlast Hlastm] Hout.
    constructor; auto.
    - intros x Hx. destruct (Hold x Hx) as [E|[E|[E|[E1 E2]]]]; auto.
      + right. right. right. destruct (Hmap x E) as [_ [X2 _]]. split; [lia|].
        destruct (In_nth_error _ _ E) as [idx Hidx].
        destruct (nth_error_same_length map_i act_i idx x Hlen1 Hidx) as [xa Hxa].
        destruct (Hout xa (nth_error_In _ _ Hxa)) as [a [Ha Hf]]. eapply Hfd; eauto.
      + right. right. right. split; [lia|exact E2].
    - intros m Hm. destruct (Hlay m Hm) as [X1 [X2 X3]]. split; [exact X1|]. split; [lia|exact X3].
    - intros m [].
    - intros idx x m a _ _ [].
    - intros Hc; contradiction.
  Qed.

  (* ---- all layers ---- *)
  Lemma build_layers_len : forall rest i act_i map_i st st_f lv,
    build_layers aut i (act_i :: rest) map_i st = Ok st_f ->
    (forall k l, nth_error (act_i :: rest) k = Some l -> acts (i + k)%nat = l) ->
    (i + length rest = L)%nat ->
    GInv i act_i map_i st [] [] lv ->
    exists map_f lv_f, GInv L (last (act_i :: rest) []) map_f st_f [] [] lv_f.
  Proof.
    induction rest as [|act_next rest IH]; intros i act_i map_i st st_f lv H Hacts HL HGI.
    - cbn in H. injection H as <-. cbn [length] in HL. replace L with i by lia. exists map_i, lv. exact HGI.
    - cbn [build_layers] in H. unfold build_layer in H.
      destruct (lookup_nodes aut act_next) as [nas|] eqn:Hlk; cbn [bind] in H; [|discriminate].
      destruct (fold_left (build_node aut i act_i map_i) nas (Ok (st, []))) as [[st1 lay1]|] eqn:Hfold; cbn [bind fst snd] in H; [|discriminate].
      apply lookup_nodes_ok in Hlk. cbn [length] in HL.
      assert (Hai : acts i = act_i). { specialize (Hacts 0%nat act_i eq_refl). rewrite Nat.add_0_r in Hacts. exact Hacts. }
      assert (Han : acts (S i) = act_next). { specialize (Hacts 1%nat act_next eq_refl). rewrite Nat.add_1_r in Hacts. exact Hacts. }
      assert (Hi : (i < L)%nat) by lia.
      destruct (build_nodes_len i act_i map_i nas act_next st [] [] st1 lay1 lv Hlk Hfold HGI) as [lv1 HGI1].
      { rewrite <- Hai. apply acts_NoDup. lia. }
      { intros a Ha. rewrite <- Hai. apply active_in_edge; [exact Hi|]. rewrite Han. exact Ha. }
      cbn [app] in HGI1.
      assert (HGI2 : GInv (S i) act_next lay1 st1 [] [] lv1).
      { apply (GInv_next i act_i map_i st1 lay1 act_next lv1 HGI1).
        intros x Hx. rewrite <- Han. apply active_out_edge; [exact Hi|]. rewrite Hai. exact Hx. }
      destruct (IH (S i) act_next lay1 st1 st_f lv1 H) as [map_f [lv_f Hf]]; auto.
      { intros k l Hk. specialize (Hacts (S k) l Hk). rewrite <- Hacts. f_equal. lia. }
      { lia. }
      exists map_f, lv_f. exact Hf.
  Qed.
End LenAut.

(* ================= Part C ================= *)
Section LenAutFinal.
  Variable R : cring.
  Variable aut : autop R.
  Hypothesis Hcons : aut_consistent aut = true.

  Lemma nids_remove (g : graph R) y x : In x (nids R (remove_node g y)) <-> In x (nids R g) /\ x <> y.
  Proof.
    unfold nids, remove_node. cbn [g_nodes]. rewrite !in_map_iff. split.
    - intros [n [Hid Hn]]. apply filter_In in Hn. destruct Hn as [Hn Hk]. apply negb_true_iff, Z.eqb_neq in Hk.
      split; [exists n; auto|congruence].
    - intros [[n [Hid Hn]] Hne]. exists n. split; [exact Hid|]. apply filter_In. split; [exact Hn|].
      apply negb_true_iff, Z.eqb_neq. congruence.
  Qed.
  Lemma hasin_remove (g : graph R) a b y x : x <> y -> hasin R g x ->
    hasin R (remove_node (mkgraph (g_nodes g) (g_edges g) a b) y) x.
  Proof.
    intros Hne [n [H1 [H2 H3]]]. exists n. cbn [remove_node g_nodes]. split; [|auto].
    apply filter_In. split; [exact H1|]. apply negb_true_iff, Z.eqb_neq. congruence.
  Qed.
  Lemma hasout_remove (g : graph R) a b y x : x <> y -> hasout R g x ->
    hasout R (remove_node (mkgraph (g_nodes g) (g_edges g) a b) y) x.
  Proof.
    intros Hne [n [H1 [H2 H3]]]. exists n. cbn [remove_node g_nodes]. split; [|auto].
    apply filter_In. split; [exact H1|]. apply negb_true_iff, Z.eqb_neq. congruence.
  Qed.

  Theorem from_automaton_raw_built L g : from_automaton_raw aut L = Ok g -> Built R g L.
  Proof.
    unfold from_automaton_raw. intros H.
    destruct (Nat.ltb L 1) eqn:HL; [discriminate|]. apply Nat.ltb_ge in HL.
    destruct (active_layers aut L) as [all|] eqn:Hall; cbn [bind] in H; [|discriminate].
    destruct (zl_eq1 (nth 0 all []) (a_t0 aut)) eqn:H0; cbn [negb] in H; [|discriminate].
    destruct (zl_eq1 (last all []) (a_t1 aut)) eqn:H1; cbn [negb] in H; [|discriminate].
    destruct (afind_node aut (a_t0 aut)) as [n0|] eqn:Hn0; [|discriminate].
    set (g0 := mkgraph [mknode 0 [] [] (n_q n0); mknode (-1) [] [] 0] [] 0 (-1)) in H.
    destruct (build_layers aut 0 all [0] (mkb g0 1 0)) as [st|] eqn:Hb; cbn [bind] in H; [|discriminate].
    destruct (max_nid (b_g st)) as [t1'|] eqn:Hmax; cbn [bind] in H; [|discriminate].
    inversion H; subst g; clear H.
    assert (Hlen : length all = S L).
    { unfold active_layers in Hall. apply sequence_length in Hall. rewrite map_length, seq_length in Hall. exact Hall. }
    destruct all as [|a0 rest]; [discriminate|]. cbn [length] in Hlen.
    assert (Ha0 : a0 = [a_t0 aut]).
    { cbn in H0. destruct a0 as [|y [|? ?]]; try discriminate. apply Z.eqb_eq in H0. subst; reflexivity. }
    assert (HGI0 : GInv R aut 0 a0 [0] (mkb g0 1 0) [] [] (fun _ => 0)).
    { constructor; cbn [b_g b_nid g0].
      - constructor; cbn.
        + constructor; [cbn; intros [E|[]]; discriminate|constructor; [intros []|constructor]].
        + constructor.
        + split; [|split]; cbn; [intros n [<-|[<-|[]]]; constructor|intros n eid [<-|[<-|[]]] []|intros e []].
        + split; [|split]; cbn; [intros n [<-|[<-|[]]]; constructor|intros n eid [<-|[<-|[]]] []|intros e []].
        + intros e [].
        + intros e [].
      - reflexivity.
      - split; [cbn; auto|]. intros n [<-|[<-|[]]] E; cbn in E; try discriminate. split; reflexivity.
      - split; [cbn; auto|reflexivity].
      - intros x [<-|[<-|[]]]; cbn; auto.
      - intros x [<-|[<-|[]]] X1 X2; cbn in X1, X2; congruence.
      - intros m [<-|[]]. split; [cbn; auto|]. split; [reflexivity|discriminate].
      - intros m [].
      - rewrite Ha0. split; reflexivity.
      - intros idx x m a _ _ [].
      - intros x [<-|[<-|[]]]; cbn; lia.
      - intros Hc; contradiction.
      - intros _ _. reflexivity. }
    destruct (build_layers_len R aut Hcons L (a0 :: rest) Hall rest 0%nat a0 [0] (mkb g0 1 0) st (fun _ => 0) Hb)
      as [map_f [lv HGI]]; auto.
    { intros k l Hk. cbn [Nat.add]. apply nth_error_nth. exact Hk. }
    destruct HGI as [W T D Z0 Hold Hin Hmap _ [Hlen1 _] _ Hlt _ Hlastm].
    assert (Hlast : last (a0 :: rest) [] = [a_t1 aut]).
    { destruct (last (a0 :: rest) []) as [|y [|? ?]]; try discriminate. cbn in H1. apply Z.eqb_eq in H1. subst; reflexivity. }
    rewrite Hlast in Hlen1. destruct map_f as [|m [|? ?]]; try discriminate. clear Hlen1.
    assert (Hm : m = b_nid st - 1). { rewrite <- Hlastm; auto. discriminate. }
    destruct (Hmap m (or_introl eq_refl)) as [Hmn [Hml Hmne]].
    assert (Hmax' : t1' = m).
    { assert (Hmax2 : t1' = zmax (map n_id (g_nodes (b_g st))) 0).
      { unfold max_nid in Hmax. destruct (g_nodes (b_g st)); [discriminate|]. inversion Hmax. reflexivity. }
      rewrite Hmax2. apply zmax_is.
      - exact Hmn.
      - intros x Hx. specialize (Hlt x Hx). lia. }
    subst t1'.
    set (gf := remove_node (mkgraph (g_nodes (b_g st)) (g_edges (b_g st)) (g_t0 (b_g st)) m) (-1)).
    assert (Hnf : forall x, In x (nids R gf) <-> In x (nids R (b_g st)) /\ x <> -1).
    { intros x. unfold gf. rewrite nids_remove. unfold nids. cbn [g_nodes]. reflexivity. }
    exists lv. split; [|split; [|split]].
    - apply remove_isolated_PW; [exact W|apply D].
    - constructor.
      + apply Hnf. cbn [gf remove_node g_t0]. rewrite T. split; [apply Z0|discriminate].
      + apply Hnf. cbn [gf remove_node g_t1]. split; assumption.
      + cbn [gf remove_node g_t0]. rewrite T. apply Z0.
      + cbn [gf remove_node g_t1]. exact Hml.
      + intros x Hx. apply Hnf in Hx. destruct Hx as [Hx Hne].
        destruct (Hold x Hx) as [E|[[]|[[<-|[]]|[E1 E2]]]]; [contradiction|lia|lia].
    - intros x Hx Hne0. apply Hnf in Hx. destruct Hx as [Hx Hne]. cbn [gf remove_node g_t0] in Hne0. rewrite T in Hne0.
      apply hasin_remove; [exact Hne|]. apply Hin; assumption.
    - intros x Hx Hne1. apply Hnf in Hx. destruct Hx as [Hx Hne]. cbn [gf remove_node g_t1] in Hne1.
      apply hasout_remove; [exact Hne|].
      destruct (Hold x Hx) as [E|[[]|[[<-|[]]|[E1 E2]]]]; [contradiction|contradiction|exact E2].
  Qed.
End LenAutFinal.

(* ---------- the statements used by Properties/C17.v ---------- *)
Theorem from_automaton_raw_WF (R : cring) (aut : autop R) (L : nat) (g : graph R) :
  aut_consistent aut = true -> from_automaton_raw aut L = Ok g -> WF R g.
Proof. intros Hc H. eapply Built_WF. eapply from_automaton_raw_built; eauto. Qed.

Theorem from_automaton_raw_length (R : cring) (aut : autop R) (L : nat) (g : graph R) :
  aut_consistent aut = true -> from_automaton_raw aut L = Ok g -> glength g = Some L.
Proof. intros Hc H. eapply Built_glength. eapply from_automaton_raw_built; eauto. Qed.

Theorem from_automaton_raw_consistent (R : cring) (aut : autop R) (L : nat) (g : graph R) fuel b :
  aut_consistent aut = true -> from_automaton_raw aut L = Ok g -> is_consistent_fuel fuel g = Some b -> b = true.
Proof. intros Hc H. eapply Built_consistent. eapply from_automaton_raw_built; eauto. Qed.

Lemma from_automaton_raw_of (R : cring) (aut : autop R) (L : nat) (g : graph R) :
  from_automaton aut L = Some g -> from_automaton_raw aut L = Ok g.
Proof.
  unfold from_automaton, from_automaton_r. destruct (from_automaton_raw aut L) as [g'|]; cbn [bind to_opt]; [|discriminate].
  destruct (is_consistent g') as [[|]|]; cbn [to_opt]; intros H; try discriminate. inversion H; reflexivity.
Qed.

Theorem from_automaton_length (R : cring) (aut : autop R) (L : nat) (g : graph R) :
  aut_consistent aut = true -> from_automaton aut L = Some g -> glength g = Some L.
Proof. intros Hc H. apply (from_automaton_raw_length R aut L g Hc). apply from_automaton_raw_of. exact H. Qed.

Theorem from_automaton_consistent_all (R : cring) (aut : autop R) (L : nat) (g : graph R) fuel b :
  aut_consistent aut = true -> from_automaton aut L = Some g -> is_consistent_fuel fuel g = Some b -> b = true.
Proof. intros Hc H. apply (from_automaton_raw_consistent R aut L g fuel b Hc). apply from_automaton_raw_of. exact H. Qed.

(* the code's final [assert graph.is_consistent()] cannot fire: whenever the construction gets that far, the
   model's from_automaton_r does not end in the assertion error of that line *)
Theorem from_automaton_assert_unreachable (R : cring) (aut : autop R) (L : nat) (g : graph R) :
  aut_consistent aut = true -> from_automaton_raw aut L = Ok g ->
  from_automaton_r aut L = Ok g \/ from_automaton_r aut L = Err EFuel.
Proof.
  intros Hc H. unfold from_automaton_r. rewrite H. cbn [bind].
  destruct (is_consistent g) as [[|]|] eqn:E; [left; reflexivity| |right; reflexivity].
  unfold is_consistent in E. pose proof (from_automaton_raw_consistent R aut L g _ _ Hc H E). discriminate.
Qed.

Print Assumptions from_automaton_raw_WF.
Print Assumptions from_automaton_length.
Print Assumptions from_automaton_consistent_all.
Print Assumptions from_automaton_assert_unreachable.

(* everything about the graph produced before the final assertion, in one statement *)
Theorem from_automaton_raw_wellformed (R : cring) (aut : autop R) (L : nat) (g : graph R) :
  aut_consistent aut = true -> from_automaton_raw aut L = Ok g ->
  WF R g /\ glength g = Some L /\ forall fuel b, is_consistent_fuel fuel g = Some b -> b = true.
Proof.
  intros Hc H. split; [eapply from_automaton_raw_WF; eauto|]. split; [eapply from_automaton_raw_length; eauto|].
  intros fuel b. eapply from_automaton_raw_consistent; eauto.
Qed.
Print Assumptions from_automaton_raw_wellformed.
