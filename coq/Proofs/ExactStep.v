(* C09 exactness — the loop bodies of integrate_local_singlesite (Model/Sweeps.v) under the contracts of Proofs/ExactDefs.v:
   unfolding of the bodies relative to the per-call QR contract, the structural invariant [EI] (shapes, complete frames left
   of min(centre, m) and right of max(centre, m), environment recurrences) and its preservation. *)
From Coq Require Import ZArith Arith List Lia Ring Setoid Bool.
From PT Require Import Base.Scalar Base.BigSum Base.Mx Model.Tensor Model.Operation Model.Sweeps
  Proofs.OperationEntries Proofs.OperationLocal Proofs.SweepsCanon Proofs.SweepsFlow Proofs.SweepsGauge
  Proofs.ReverseDefs Proofs.ReverseMx Proofs.ReverseGauge Proofs.ReverseQR Proofs.ReverseFwd
  Proofs.ExactDefs Proofs.ExactQR.
Import ListNotations.

Section Step.
  Variable R : cring.
  Add Ring Rring_exact_step : (k_rt R).
  Notation site := (site R).
  Notation osite := (osite R).
  Notation env := (env R).
  Notation mx := (mx R).
  Notation sw := (sw R).
  Variable qr : nat -> mx -> list BinNums.Z -> list BinNums.Z -> mx * mx * list BinNums.Z.
  Variable kexp : kexp_t R.
  Variable kexp0 : kexp0_t R.
  Variable Hs : list osite.
  Variable qd : list BinNums.Z.
  Variable d : nat.
  Variables Ds DW : nat -> nat.
  Notation L := (length Hs).
  Variables (dt hdt : R).
  Notation lr := (tdvp1_lr qr kexp kexp0 Hs qd dt hdt).
  Notation rl := (tdvp1_rl qr kexp kexp0 Hs qd dt hdt).
  Notation mid := (tdvp1_mid kexp Hs dt hdt).
  Notation ok := (ex_tr_ok qr).

  (* ---------------- the loop bodies, unfolded ---------------- *)
  Lemma elr_unfold (st : sw) i : S i < length (s_A st) -> S i < length (s_BL st) -> ok (s_tr (lr st i)) ->
    exists (p p' : nat) (Q C : mx) (qb : list BinNums.Z),
      let W := nth i Hs [] in
      let A1 := kexp p (gBL st i) (gBR st i) W (gA st i) hdt in
      let Aq := site_unflat (length A1) (sdl A1) Q in
      let BLn := contraction_operator_step_left Aq Aq W (gBL st i) in
      let C1 := kexp0 p' BLn (gBR st i) C (kopp R hdt) in
      qr_full (site_flat A1) (Q, C, qb) /\
      (forall k, gA (lr st i) k = if Nat.eqb k i then Aq else if Nat.eqb k (S i) then lmul_site C1 (gA st (S i)) else gA st k) /\
      (forall k, gBL (lr st i) k = if Nat.eqb k (S i) then BLn else gBL st k) /\
      (forall k, gBR (lr st i) k = gBR st k) /\
      length (s_A (lr st i)) = length (s_A st) /\ length (s_BL (lr st i)) = length (s_BL st) /\ length (s_BR (lr st i)) = length (s_BR st).
  Proof.
    intros HA HBL Hok. unfold tdvp1_lr, qr_left in *. cbv zeta in *.
    set (A1 := kexp (length (s_tr st)) (gBL st i) (gBR st i) (nth i Hs []) (gA st i) (tval dt hdt 1)) in *.
    destruct (qr (S (length (s_tr st))) (site_flat A1) (qflat qd (gq st i)) (gq st (S i))) as [[Q C] qb] eqn:Eq.
    cbn [s_tr s_A s_BL s_BR] in *. destruct Hok as (_ & _ & HcQ & _).
    unfold ex_call_ok in HcQ. cbn [at_site t_call c_kind c_site c_coef t_envs t_ten t_qs length] in HcQ. rewrite Eq in HcQ.
    exists (length (s_tr st)), (S (S (S (length (s_tr st))))), Q, C, qb. cbv zeta.
    change (tval dt hdt 1) with hdt in *. change (tval dt hdt (-1)) with (kopp R hdt) in *. fold A1.
    split; [exact HcQ|].
    split; [|split; [|split; [|split; [|split]]]].
    - intros k. unfold gA. cbn [s_A]. rewrite nth_lset_if by (rewrite lset_length; lia).
      destruct (Nat.eqb_spec k (S i)) as [->|Hne].
      + replace (Nat.eqb (S i) i) with false by (symmetry; apply Nat.eqb_neq; lia). reflexivity.
      + rewrite nth_lset_if by lia. reflexivity.
    - intros k. unfold gBL. cbn [s_BL]. apply nth_lset_if. lia.
    - intros k. reflexivity.
    - rewrite !lset_length. reflexivity.
    - rewrite lset_length. reflexivity.
    - reflexivity.
  Qed.

  Lemma erl_unfold (st : sw) i : 0 < i -> i < length (s_A st) -> i < length (s_BR st) -> ok (s_tr (rl st i)) ->
    exists (p' p'' : nat) (Q C : mx) (qb : list BinNums.Z),
      let W := nth i Hs [] in
      let Aq := site_tr (site_unflat (length (site_tr (gA st i))) (sdl (site_tr (gA st i))) Q) in
      let BRn := contraction_operator_step_right Aq Aq W (gBR st i) in
      let C1 := kexp0 p' (gBL st i) BRn (trmx C) (kopp R hdt) in
      let Ap1 := kexp p'' (gBL st (i - 1)) BRn (nth (i - 1) Hs []) (rmul_site (gA st (i - 1)) C1) hdt in
      qr_full (site_flat (site_tr (gA st i))) (Q, C, qb) /\
      (forall k, gA (rl st i) k = if Nat.eqb k (i - 1) then Ap1 else if Nat.eqb k i then Aq else gA st k) /\
      (forall k, gBL (rl st i) k = gBL st k) /\
      (forall k, gBR (rl st i) k = if Nat.eqb k (i - 1) then BRn else gBR st k) /\
      length (s_A (rl st i)) = length (s_A st) /\ length (s_BL (rl st i)) = length (s_BL st) /\ length (s_BR (rl st i)) = length (s_BR st).
  Proof.
    intros Hi HA HBR Hok. unfold tdvp1_rl, qr_right in *. cbv zeta in *.
    destruct (qr (length (s_tr st)) (site_flat (site_tr (gA st i))) (qflat qd (zneg (gq st (S i)))) (zneg (gq st i))) as [[Q C] qb] eqn:Eq.
    cbn [s_tr s_A s_BL s_BR] in *. destruct Hok as (_ & _ & _ & HcQ & _).
    unfold ex_call_ok in HcQ. cbn [at_site t_call c_kind c_site c_coef t_envs t_ten t_qs length] in HcQ. rewrite Eq in HcQ.
    exists (S (S (length (s_tr st)))), (S (S (S (length (s_tr st))))), Q, C, qb. cbv zeta.
    change (tval dt hdt 1) with hdt in *. change (tval dt hdt (-1)) with (kopp R hdt) in *.
    split; [exact HcQ|].
    split; [|split; [|split; [|split; [|split]]]].
    - intros k. unfold gA. cbn [s_A]. rewrite nth_lset_if by (rewrite lset_length; lia).
      destruct (Nat.eqb_spec k (i - 1)) as [->|Hne]; [reflexivity|].
      rewrite nth_lset_if by lia. reflexivity.
    - intros k. reflexivity.
    - intros k. unfold gBR. cbn [s_BR]. apply nth_lset_if. lia.
    - rewrite !lset_length. reflexivity.
    - reflexivity.
    - rewrite lset_length. reflexivity.
  Qed.

  (* ---------------- standing hypotheses ---------------- *)
  Hypothesis Hd : 0 < d.
  Hypothesis HW : forall j, j < L -> osite_ok d (DW j) (DW (S j)) (nth j Hs []).
  Hypothesis HDW : forall j, 0 < DW j.
  Variable m : nat.
  Hypothesis Hprof : complete_profile Hs d Ds m.
  Hypothesis Hk : kexp_flowH Hs d Ds DW kexp.
  Hypothesis Hk0 : kexp0_shape Hs Ds DW kexp0.

  (* ---------------- the structural invariant ---------------- *)
  Definition EI (i : nat) (st : sw) : Prop :=
    length (s_A st) = L /\ length (s_BL st) = L /\ length (s_BR st) = L /\
    (forall j, j < L -> wsite d (Ds j) (Ds (S j)) (gA st j)) /\
    (forall j, j < i -> j < m -> lunitary (gA st j)) /\ (forall j, i < j < L -> m < j -> runitary (gA st j)) /\
    (forall j, j <= i -> wenv (DW j) (Ds j) (Ds j) (gBL st j)) /\
    (forall j, i <= j < L -> wenv (DW (S j)) (Ds (S j)) (Ds (S j)) (gBR st j)) /\
    (forall j, j < i -> gBL st (S j) = contraction_operator_step_left (gA st j) (gA st j) (nth j Hs []) (gBL st j)) /\
    (forall j, i < j < L -> gBR st (j - 1) = contraction_operator_step_right (gA st j) (gA st j) (nth j Hs []) (gBR st j)) /\
    gBL st 0 = env_one /\ gBR st (L - 1) = env_one.

  (* facts about one left-to-right body *)
  Lemma elr_facts (X : sw) i : EI i X -> S i < L -> ok (s_tr (lr X i)) ->
    exists p p' Aq C,
      let W := nth i Hs [] in
      let A1 := kexp p (gBL X i) (gBR X i) W (gA X i) hdt in
      let BLn := contraction_operator_step_left Aq Aq W (gBL X i) in
      let C1 := kexp0 p' BLn (gBR X i) C (kopp R hdt) in
      wsite d (Ds i) (Ds (S i)) A1 /\ wsite d (Ds i) (Ds (S i)) Aq /\ left_iso Aq /\ ((d * Ds i)%nat = Ds (S i) -> lcoiso Aq) /\
      wmx (Ds (S i)) (Ds (S i)) C /\ A1 = rmul_site Aq C /\
      wmx (Ds (S i)) (Ds (S i)) C1 /\ wenv (DW (S i)) (Ds (S i)) (Ds (S i)) BLn /\
      (forall k, gA (lr X i) k = if Nat.eqb k i then Aq else if Nat.eqb k (S i) then lmul_site C1 (gA X (S i)) else gA X k) /\
      (forall k, gBL (lr X i) k = if Nat.eqb k (S i) then BLn else gBL X k) /\
      (forall k, gBR (lr X i) k = gBR X k) /\
      length (s_A (lr X i)) = L /\ length (s_BL (lr X i)) = L /\ length (s_BR (lr X i)) = L.
  Proof.
    intros (lA & lBL & lBR & Hsh & Hlu & Hru & HwL & HwR & HrL & HrR & H0 & HL1) HSi Hok.
    destruct (elr_unfold X i ltac:(lia) ltac:(lia) Hok) as (p & p' & Q & C & qb & Hq & EA & EBL & EBR & l1 & l2 & l3).
    cbv zeta in *. set (A1 := kexp p (gBL X i) (gBR X i) (nth i Hs []) (gA X i) hdt) in *.
    assert (HA1 : wsite d (Ds i) (Ds (S i)) A1).
    { apply (Hk i p p p (gBL X i) (gBR X i) (gA X i) hdt hdt); [lia|apply Hsh; lia|apply HwL; lia|apply HwR; lia]. }
    destruct (qr_left_full R d (Ds i) (Ds (S i)) A1 Q C qb Hd HA1 Hq) as (HAq & Hiso & HC & EA1 & Hco).
    exists p, p', (site_unflat (length A1) (sdl A1) Q), C. cbv zeta. fold A1.
    set (Aq := site_unflat (length A1) (sdl A1) Q) in *.
    assert (HBLn : wenv (DW (S i)) (Ds (S i)) (Ds (S i)) (contraction_operator_step_left Aq Aq (nth i Hs []) (gBL X i))).
    { apply (wenv_stepL R Hs d Ds DW Hd HW); [lia|exact HAq]. }
    split; [exact HA1|]. split; [exact HAq|]. split; [exact Hiso|]. split; [exact Hco|]. split; [exact HC|]. split; [exact EA1|].
    split; [apply (Hk0 (S i)); [lia|exact HC|exact HBLn|apply HwR; lia]|]. split; [exact HBLn|].
    split; [exact EA|]. split; [exact EBL|]. split; [exact EBR|]. split; [lia|]. split; lia.
  Qed.

  Lemma EI_lr (X : sw) i : EI i X -> S i < L -> ok (s_tr (lr X i)) -> EI (S i) (lr X i).
  Proof.
    intros HEI HSi Hok.
    destruct (elr_facts X i HEI HSi Hok) as (p & p' & Aq & C & HA1 & HAq & Hiso & Hco & HC & EA1 & HC1 & HBLn & EA & EBL & EBR & l1 & l2 & l3).
    cbv zeta in *. destruct HEI as (lA & lBL & lBR & Hsh & Hlu & Hru & HwL & HwR & HrL & HrR & H0 & HL1).
    destruct Hprof as (_ & _ & _ & PL & PR).
    set (C1 := kexp0 p' _ _ C (kopp R hdt)) in *.
    split; [exact l1|]. split; [exact l2|]. split; [exact l3|].
    split.
    { intros j Hj. rewrite EA. destruct (Nat.eqb_spec j i) as [->|N1]; [exact HAq|].
      destruct (Nat.eqb_spec j (S i)) as [->|N2]; [|apply Hsh; exact Hj].
      apply (wsite_lmul R d (Ds (S i)) (Ds (S i))); [apply Hsh; exact Hj|exact HC1]. }
    split.
    { intros j Hj Hjm. rewrite EA. destruct (Nat.eqb_spec j i) as [->|N1]; [split; [exact Hiso|apply Hco; apply PL; exact Hjm]|].
      destruct (Nat.eqb_spec j (S i)) as [->|N2]; [lia|]. apply Hlu; lia. }
    split.
    { intros j Hj Hjm. rewrite EA. destruct (Nat.eqb_spec j i) as [->|N1]; [lia|].
      destruct (Nat.eqb_spec j (S i)) as [->|N2]; [lia|]. apply Hru; lia. }
    split.
    { intros j Hj. rewrite EBL. destruct (Nat.eqb_spec j (S i)) as [->|N1]; [exact HBLn|]. apply HwL. lia. }
    split.
    { intros j Hj. rewrite EBR. apply HwR. lia. }
    split.
    { intros j Hj. rewrite (EBL (S j)), (EBL j), (EA j).
      destruct (Nat.eqb_spec j i) as [->|N1].
      - rewrite Nat.eqb_refl. replace (Nat.eqb i (S i)) with false by (symmetry; apply Nat.eqb_neq; lia). reflexivity.
      - replace (Nat.eqb (S j) (S i)) with false by (symmetry; apply Nat.eqb_neq; lia).
        replace (Nat.eqb j (S i)) with false by (symmetry; apply Nat.eqb_neq; lia). apply HrL. lia. }
    split.
    { intros j Hj. rewrite !EBR, (EA j).
      replace (Nat.eqb j i) with false by (symmetry; apply Nat.eqb_neq; lia).
      replace (Nat.eqb j (S i)) with false by (symmetry; apply Nat.eqb_neq; lia). apply HrR. lia. }
    split; [rewrite EBL; exact H0|rewrite EBR; exact HL1].
  Qed.

  (* facts about one right-to-left body (at site k+1) *)
  Lemma erl_facts (X : sw) k : EI (S k) X -> S k < L -> ok (s_tr (rl X (S k))) ->
    exists p' p'' Aq Ct,
      let W := nth (S k) Hs [] in
      let BRn := contraction_operator_step_right Aq Aq W (gBR X (S k)) in
      let C1 := kexp0 p' (gBL X (S k)) BRn Ct (kopp R hdt) in
      let Ap := rmul_site (gA X k) C1 in
      let Ap1 := kexp p'' (gBL X k) BRn (nth k Hs []) Ap hdt in
      wsite d (Ds (S k)) (Ds (S (S k))) Aq /\ right_iso Aq /\ ((d * Ds (S (S k)))%nat = Ds (S k) -> rcoiso Aq) /\
      wmx (Ds (S k)) (Ds (S k)) Ct /\ gA X (S k) = lmul_site Ct Aq /\
      wmx (Ds (S k)) (Ds (S k)) C1 /\ wenv (DW (S k)) (Ds (S k)) (Ds (S k)) BRn /\ wsite d (Ds k) (Ds (S k)) Ap /\
      wsite d (Ds k) (Ds (S k)) Ap1 /\
      (forall j, gA (rl X (S k)) j = if Nat.eqb j k then Ap1 else if Nat.eqb j (S k) then Aq else gA X j) /\
      (forall j, gBL (rl X (S k)) j = gBL X j) /\
      (forall j, gBR (rl X (S k)) j = if Nat.eqb j k then BRn else gBR X j) /\
      length (s_A (rl X (S k))) = L /\ length (s_BL (rl X (S k))) = L /\ length (s_BR (rl X (S k))) = L.
  Proof.
    intros (lA & lBL & lBR & Hsh & Hlu & Hru & HwL & HwR & HrL & HrR & H0 & HL1) HkL Hok.
    destruct (erl_unfold X (S k) ltac:(lia) ltac:(lia) ltac:(lia) Hok) as (p' & p'' & Q & C & qb & Hq & EA & EBL & EBR & l1 & l2 & l3).
    cbv zeta in *. replace (S k - 1) with k in * by lia.
    assert (HXi : wsite d (Ds (S k)) (Ds (S (S k))) (gA X (S k))) by (apply Hsh; exact HkL).
    destruct (qr_right_full R d (Ds (S k)) (Ds (S (S k))) (gA X (S k)) Q C qb Hd HXi Hq) as (HAq & Hiso & HCt & EX & Hco).
    set (Aq := site_tr (site_unflat (length (site_tr (gA X (S k)))) (sdl (site_tr (gA X (S k)))) Q)) in *.
    exists p', p'', Aq, (trmx C). cbv zeta.
    assert (HBRn : wenv (DW (S k)) (Ds (S k)) (Ds (S k)) (contraction_operator_step_right Aq Aq (nth (S k) Hs []) (gBR X (S k)))).
    { apply (wenv_stepR R Hs d Ds DW Hd HW); [exact HkL|exact HAq]. }
    assert (HC1 : wmx (Ds (S k)) (Ds (S k)) (kexp0 p' (gBL X (S k)) (contraction_operator_step_right Aq Aq (nth (S k) Hs []) (gBR X (S k))) (trmx C) (kopp R hdt))).
    { apply (Hk0 (S k)); [lia|exact HCt|apply HwL; lia|exact HBRn]. }
    assert (HAp : wsite d (Ds k) (Ds (S k)) (rmul_site (gA X k) (kexp0 p' (gBL X (S k)) (contraction_operator_step_right Aq Aq (nth (S k) Hs []) (gBR X (S k))) (trmx C) (kopp R hdt)))).
    { apply (wsite_rmul R d (Ds (S k)) (Ds k) (Ds (S k))); [apply Hsh; lia|exact HC1]. }
    split; [exact HAq|]. split; [exact Hiso|]. split; [exact Hco|]. split; [exact HCt|]. split; [exact EX|]. split; [exact HC1|].
    split; [exact HBRn|]. split; [exact HAp|].
    split; [apply (Hk k p'' p'' p'' (gBL X k) _ _ hdt hdt); [lia|exact HAp|apply HwL; lia|exact HBRn]|].
    split; [exact EA|]. split; [exact EBL|]. split; [exact EBR|]. split; [lia|]. split; lia.
  Qed.

  Lemma EI_rl (X : sw) k : EI (S k) X -> S k < L -> ok (s_tr (rl X (S k))) -> EI k (rl X (S k)).
  Proof.
    intros HEI HkL Hok.
    destruct (erl_facts X k HEI HkL Hok) as (p' & p'' & Aq & Ct & HAq & Hiso & Hco & HCt & EX & HC1 & HBRn & HAp & HAp1 & EA & EBL & EBR & l1 & l2 & l3).
    cbv zeta in *. destruct HEI as (lA & lBL & lBR & Hsh & Hlu & Hru & HwL & HwR & HrL & HrR & H0 & HL1).
    destruct Hprof as (_ & _ & _ & PL & PR).
    split; [exact l1|]. split; [exact l2|]. split; [exact l3|].
    split.
    { intros j Hj. rewrite EA. destruct (Nat.eqb_spec j k) as [->|N1]; [exact HAp1|].
      destruct (Nat.eqb_spec j (S k)) as [->|N2]; [exact HAq|apply Hsh; exact Hj]. }
    split.
    { intros j Hj Hjm. rewrite EA. destruct (Nat.eqb_spec j k) as [->|N1]; [lia|].
      destruct (Nat.eqb_spec j (S k)) as [->|N2]; [lia|]. apply Hlu; lia. }
    split.
    { intros j Hj Hjm. rewrite EA. destruct (Nat.eqb_spec j k) as [->|N1]; [lia|].
      destruct (Nat.eqb_spec j (S k)) as [->|N2]; [split; [exact Hiso|apply Hco; symmetry; apply PR; lia]|]. apply Hru; lia. }
    split.
    { intros j Hj. rewrite EBL. apply HwL. lia. }
    split.
    { intros j Hj. rewrite EBR. destruct (Nat.eqb_spec j k) as [->|N1]; [exact HBRn|]. apply HwR. lia. }
    split.
    { intros j Hj. rewrite !EBL, (EA j).
      replace (Nat.eqb j k) with false by (symmetry; apply Nat.eqb_neq; lia).
      replace (Nat.eqb j (S k)) with false by (symmetry; apply Nat.eqb_neq; lia). apply HrL. lia. }
    split.
    { intros j Hj. rewrite (EBR (j - 1)), (EBR j), (EA j).
      replace (Nat.eqb j k) with false by (symmetry; apply Nat.eqb_neq; lia).
      destruct (Nat.eqb_spec j (S k)) as [->|N1].
      - replace (S k - 1) with k by lia. rewrite Nat.eqb_refl. replace (Nat.eqb (S k) k) with false by (symmetry; apply Nat.eqb_neq; lia). reflexivity.
      - replace (Nat.eqb (j - 1) k) with false by (symmetry; apply Nat.eqb_neq; lia).
        replace (Nat.eqb j k) with false by (symmetry; apply Nat.eqb_neq; lia). apply HrR. lia. }
    split; [rewrite EBL; exact H0|].
    rewrite EBR. replace (Nat.eqb (L - 1) k) with false by (symmetry; apply Nat.eqb_neq; lia). exact HL1.
  Qed.

  Lemma EI_mid (X : sw) i : EI i X -> i < L -> EI i (mid X i).
  Proof.
    intros (lA & lBL & lBR & Hsh & Hlu & Hru & HwL & HwR & HrL & HrR & H0 & HL1) HiL.
    destruct (mid_unfold R kexp Hs dt hdt X i ltac:(lia)) as (p & EA & EBL & EBR & l1 & l2 & l3).
    split; [lia|]. split; [lia|]. split; [lia|].
    split.
    { intros j Hj. rewrite EA. destruct (Nat.eqb_spec j i) as [->|N1]; [|apply Hsh; exact Hj].
      apply (Hk i p p p (gBL X i) (gBR X i) (gA X i) dt dt); [lia|apply Hsh; lia|apply HwL; lia|apply HwR; lia]. }
    split. { intros j Hj Hjm. rewrite EA. replace (Nat.eqb j i) with false by (symmetry; apply Nat.eqb_neq; lia). apply Hlu; assumption. }
    split. { intros j Hj Hjm. rewrite EA. replace (Nat.eqb j i) with false by (symmetry; apply Nat.eqb_neq; lia). apply Hru; assumption. }
    split. { intros j Hj. rewrite EBL. apply HwL. exact Hj. }
    split. { intros j Hj. rewrite EBR. apply HwR. exact Hj. }
    split. { intros j Hj. rewrite !EBL, EA. replace (Nat.eqb j i) with false by (symmetry; apply Nat.eqb_neq; lia). apply HrL. exact Hj. }
    split. { intros j Hj. rewrite !EBR, EA. replace (Nat.eqb j i) with false by (symmetry; apply Nat.eqb_neq; lia). apply HrR. exact Hj. }
    split; [rewrite EBL; exact H0|rewrite EBR; exact HL1].
  Qed.
End Step.

Arguments EI {R} Hs d Ds DW m i st.
