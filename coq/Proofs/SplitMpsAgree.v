(* C12 / split_mps_tensor: the composed executable model [split_mps_tensor_full] (Model/SplitMps.v) is the model of
   Model/MPSOps.v [split_mps_tensor] with its abstract split_matrix_svd oracle instantiated by [block_svd]
   (singular values embedded into the scalars) and its square-root oracle by [csqrt ksqrt]. *)
From Coq Require Import ZArith List Lia Bool Arith.
From PT Require Import Base.Scalar Base.Field Base.BigSum Base.Mx Model.Tensor Model.MPSOps Model.BondOps Model.SplitMps.
From PT Require Import Proofs.MPSOpsBase Proofs.SplitMpsReshape.
Import ListNotations.
Open Scope nat_scope.

Section Agree.
  Variable F : ofield.
  Notation CF := (Cx F).
  Notation mx := (mx CF).
  Notation site := (site CF).
  Variable dsvd : mx -> mx * list F * mx.
  Variable pick : list F -> list nat.
  Variable ksqrt : F -> F.

  (* the result in terms of the cut-out sites of Proofs/SplitMpsReshape.v *)
  Lemma full_unfold (A : site) qd0 qd1 qD0 qD2 rest distr tol U sigma V qb :
    site_shape (length qd0 * length qd1) (nr (sel A 0)) (nc (sel A 0)) A = true ->
    block_svd dsvd pick (split_arg_M A qd0 qd1) (split_arg_q0 qd0 qD0) (split_arg_q1 qd1 qD2) tol = Some (U, sigma, V, qb) ->
    distr <= 2 ->
    split_mps_tensor_full dsvd pick ksqrt A qd0 qd1 (qD0 :: qD2 :: rest) distr tol
    = Some (lsite (length qd0) (nr (sel A 0)) (length sigma) (fun r i => kmul CF (get U r i) (wleft ksqrt distr sigma i)),
            rsite (length qd1) (nc (sel A 0)) (length sigma) (fun i c => kmul CF (wright ksqrt distr sigma i) (get V i c)),
            qb).
  Proof.
    intros HA E Hd. unfold split_mps_tensor_full. rewrite HA, E. cbn [negb].
    assert (E2 : Nat.ltb 2 distr = false) by (apply Nat.ltb_ge; exact Hd). rewrite E2. reflexivity.
  Qed.

  Lemma full_some_inv (A : site) qd0 qd1 qD distr tol r :
    split_mps_tensor_full dsvd pick ksqrt A qd0 qd1 qD distr tol = Some r ->
    exists qD0 qD2 rest U sigma V qb, qD = qD0 :: qD2 :: rest /\
      site_shape (length qd0 * length qd1) (nr (sel A 0)) (nc (sel A 0)) A = true /\
      block_svd dsvd pick (split_arg_M A qd0 qd1) (split_arg_q0 qd0 qD0) (split_arg_q1 qd1 qD2) tol = Some (U, sigma, V, qb) /\
      distr <= 2.
  Proof.
    unfold split_mps_tensor_full. destruct qD as [|qD0 [|qD2 rest]]; try discriminate.
    destruct (site_shape _ _ _ A) eqn:HA; [|discriminate]. cbn [negb].
    destruct (block_svd _ _ _ _ _ _) as [[[[U sigma] V] qb]|] eqn:E; [|discriminate].
    destruct (Nat.ltb 2 distr) eqn:E2; [discriminate|]. intros _.
    exists qD0, qD2, rest, U, sigma, V, qb. split; [reflexivity|]. split; [reflexivity|]. split; [exact E|].
    apply Nat.ltb_ge. exact E2.
  Qed.

  Lemma nth_map_cof (sigma : list F) i : nth i (map (@cof F) sigma) (k0 CF) = cof (nth i sigma (f0 F)).
  Proof. change (k0 CF) with (@cof F (f0 F)). apply map_nth. Qed.

  (* agreement with the model of Model/MPSOps.v *)
  Theorem full_agrees (A : site) qd0 qd1 qD0 qD2 rest distr tol r :
    split_mps_tensor_full dsvd pick ksqrt A qd0 qd1 (qD0 :: qD2 :: rest) distr tol = Some r ->
    r = split_mps_tensor (svd_of_block dsvd pick tol) (csqrt ksqrt) A qd0 qd1 qD0 qD2 distr.
  Proof.
    intros Hr. destruct (full_some_inv _ _ _ _ _ _ _ Hr) as (qD0' & qD2' & rest' & U & sigma & V & qb & Eq & HA & E & Hd).
    injection Eq as <- <- <-.
    rewrite (full_unfold A qd0 qd1 qD0 qD2 rest distr tol U sigma V qb HA E Hd) in Hr. injection Hr as <-.
    unfold split_mps_tensor. unfold svd_of_block.
    change (split_matrix (length qd0) (length qd1) A) with (split_arg_M A qd0 qd1).
    change (qflat qd0 qD0) with (split_arg_q0 qd0 qD0). change (qflat (map Z.opp qd1) qD2) with (split_arg_q1 qd1 qD2).
    rewrite E. rewrite map_length. unfold lsite, rsite, stab.
    apply f_equal2; [apply f_equal2|reflexivity].
    - apply map_ext. intros s0. apply tab_ext. intros a i Ha Hi. f_equal.
      unfold wleft, csqrt. destruct distr as [|[|n]]; rewrite ?nth_map_cof; reflexivity.
    - apply map_ext. intros s1. apply tab_ext. intros i c Hi Hc. f_equal.
      unfold wright, csqrt. destruct distr as [|[|n]]; rewrite ?nth_map_cof; reflexivity.
  Qed.

  (* conversely, wherever the code does not raise, the MPSOps model with these oracles is what the composed model returns *)
  Theorem agrees_full (A : site) qd0 qd1 qD0 qD2 rest distr tol U sigma V qb :
    site_shape (length qd0 * length qd1) (nr (sel A 0)) (nc (sel A 0)) A = true ->
    block_svd dsvd pick (split_arg_M A qd0 qd1) (split_arg_q0 qd0 qD0) (split_arg_q1 qd1 qD2) tol = Some (U, sigma, V, qb) ->
    distr <= 2 ->
    split_mps_tensor_full dsvd pick ksqrt A qd0 qd1 (qD0 :: qD2 :: rest) distr tol
    = Some (split_mps_tensor (svd_of_block dsvd pick tol) (csqrt ksqrt) A qd0 qd1 qD0 qD2 distr).
  Proof.
    intros HA E Hd. pose proof (full_unfold A qd0 qd1 qD0 qD2 rest distr tol U sigma V qb HA E Hd) as H.
    rewrite H. f_equal. apply (full_agrees A qd0 qd1 qD0 qD2 rest distr tol). exact H.
  Qed.
End Agree.
