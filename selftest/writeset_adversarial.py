"""Adversarial snippets inserted into operation.vdot (a pure operation): the static write-set analysis must flag every
snippet that can write an operand (or give up = fail closed) and must not flag the fresh-copy ones.
Run: /venv/bin/python selftest/writeset_adversarial.py [names]"""
import os, shutil, sys, json
sys.path.insert(0, '/verif/harness')
import writeset
BASE = '/var/tmp/ws_plants/adv'
SNIPS = {
 'a_alias_chain': ("x = psi.A\n    y = x[0]\n    y[...] = 0", True),
 'b_for_fill': ("for a in psi.A:\n        a.fill(0)", True),
 'c_copyto': ("np.copyto(psi.A[0], 0)", True),
 'd_out_kw': ("np.multiply(psi.A[0], 2, out=psi.A[0])", True),
 'e_comp': ("[a.fill(0) for a in chi.A]", True),
 'f_dict': ("d = {'k': psi}\n    d['k'].A[0][0] = 1", True),
 'g_tuple': ("t = (psi, chi)\n    t[1].A.append(1)", True),
 'h_nested_def': ("def helper():\n        psi.A.clear()\n    helper()", True),
 'i_getattr': ("getattr(psi, 'A').clear()", True),
 'j_T_view': ("psi.A[0].T[0] = 1", True),
 'j2_real': ("psi.A[0].real[...] = 0", True),
 'k_reshape_aug': ("v = psi.A[0].reshape(-1)\n    v += 1", True),
 'l_loop_rebind': ("x = np.zeros(3)\n    for i in range(2):\n        x[0] = 1\n        x = psi.A[0]", True),
 'm_ifexp': ("z = psi if len(psi.A) > 2 else chi\n    z.zero_qnumbers()", True),
 'n_map': ("list(map(lambda a: a.fill(0), psi.A))", True),
 'o_dict_attr': ("psi.__dict__['A'] = []", True),
 'p_starred': ("a, *b = psi.A\n    a.fill(0)", True),
 'q_del': ("del psi.A[0]", True),
 'r_copy_fresh': ("T0 = psi.A[-1]\n    T0 = T0.copy()\n    T0[0] = 1", False),
 'r2_arith_fresh': ("T0 = 2 * psi.A[-1]\n    T0[0] = 1\n    T0 *= 3", False),
 'r3_deepcopy': ("import copy", True),
 's_key_lambda': ("sorted(psi.A, key=lambda a: a.fill(0))", True),
 't_with': ("with open('x') as f:\n        psi.A[0][0] = 1", True),
 'u_sort': ("psi.A[0].sort()", True),
 'u2_resize': ("chi.qd.resize(3)", True),
 'x_asarray': ("np.asarray(psi.A[0])[0] = 1", True),
 'z_walrus': ("(w := psi.A[0]).fill(0)", True),
 'aa_try': ("try:\n        psi.A[0].fill(0)\n    except Exception:\n        pass", True),
 'ab_while': ("k = 0\n    cur = np.zeros(2)\n    while k < 3:\n        cur.fill(1)\n        cur = chi.A[k]\n        k += 1", True),
 'ac_zip': ("for a, b in zip(psi.A, chi.A):\n        b[0] = a[0]", True),
 'ad_enumerate': ("for i, a in enumerate(psi.A):\n        a[0] = i", True),
 'ae_items': ("dd = {0: psi.A[0]}\n    for k, v in dd.items():\n        v.fill(0)", True),
 'af_setattr': ("setattr(psi, 'A', [])", True),
 'ag_method_unknown': ("psi.A[0].frobnicate()", True),
 'ah_callee_returns_alias': ("q = qnumber_flatten([psi.qd])\n    q[0] = 1", True),
 'ah2_callee_fresh': ("q = qnumber_flatten([psi.qd, chi.qd])\n    q[0] = 1", False),
 'ai_store_then_mutate': ("box = []\n    box.append(psi.A)\n    box[0].clear()", True),
 'aj_lambda_local': ("f = lambda a: a.fill(0)\n    f(psi.A[0])", True),
 'ak_global_state': ("MPS.cache = psi", True),
 'al_swap': ("psi.A[0], psi.A[1] = psi.A[1], psi.A[0]", True),
 'am_slice_assign': ("psi.qd[:] = 0", True),
 'an_nested_attr_aug': ("psi.A[0][0, 0, 0] += 1", True),
 'ao_ret_of_method': ("psi.zero_qnumbers().qd.fill(1)", True),
 'ap_property_ok': ("n = psi.nsites + len(psi.bond_dims)", False),
 'aq_einsum_view': ("v = np.einsum('ijk->kji', psi.A[0])\n    v[0] = 1", True),
 'aq2_einsum_fresh': ("v = np.einsum('ijk,ilm->jklm', psi.A[0], chi.A[0])\n    v[0] = 1", False),
 'ar_conj_real': ("c = chi.A[0].conj()\n    c[0] = 1", True),
 'as_astype_nocopy': ("c = chi.A[0].astype(complex, copy=False)\n    c[0] = 1", True),
 'as2_astype': ("c = chi.A[0].astype(complex)\n    c[0] = 1", False),
 'at_list_concat': ("l2 = [1] + psi.A\n    l2[1].fill(0)", True),
 'au_list_mult': ("l2 = 2 * [psi.A[0]]\n    l2[1].fill(0)", True),
 'av_list_copy': ("l2 = list(psi.A)\n    l2[0].fill(0)", True),
 'av2_list_copy_ok': ("l2 = list(psi.A)\n    l2.append(3)", False),
 'ax_field_copy': ("l2 = psi.A.copy()\n    l2[0].fill(0)", True),
 'ax2_field_copy_name': ("x = psi.A\n    l2 = x.copy()\n    l2[0].fill(0)", True),
 'ay_field_mult': ("l2 = psi.A * 2\n    l2[0].fill(0)", True),
 'az_elem_copy': ("q = psi.qD[0].copy()\n    q[0] = 1", False),
 # default rule for numpy functions in no table: no write, result may alias every argument
 'ba_default_alias': ("x = np.flipud(psi.A[0])\n    x.fill(0)", True),
 'ba2_default_pure': ("x = np.flipud(psi.A[0])\n    y = np.square(x) + np.flatnonzero(x).sum()", False),
 'bb_default_out': ("np.square(psi.A[0], out=psi.A[0])", True),
 'bc_nan_to_num': ("np.nan_to_num(psi.A[0], copy=False)", True),
 'bd_ufunc_at': ("np.add.at(psi.A[0], 0, 1)", True),
 'be_overwrite': ("import scipy.linalg\n    scipy.linalg.eigh(psi.A[0][0], overwrite_a=True)", True),
 # item assignment into an array allocated here copies values; into a list it stores the reference
 'bf_setitem_array': ("B0 = np.zeros((2, 2))\n    B0[:] = psi.A[0][0]\n    B0.fill(0)", False),
 'bg_setitem_list': ("l3 = [None]\n    l3[0] = psi.A[0]\n    l3[0].fill(0)", True),
 # containers from collections keep references to their elements
 'bj_deque': ("import collections", True),
 'bh_setitem_object': ("B0 = np.empty(1, dtype=object)\n    B0[0] = psi.A[0]\n    B0[0].fill(0)", True),
}
def run(name, snip, expect):
    r = os.path.join(BASE, name)
    shutil.rmtree(r, ignore_errors=True)
    os.makedirs(r)
    shutil.copytree('/repo/pytenet', r + '/pytenet', ignore=shutil.ignore_patterns('__pycache__'))
    p = r + '/pytenet/operation.py'
    s = open(p).read()
    anchor = "    assert psi.nsites == chi.nsites\n    if psi.nsites == 0:\n        return 0\n"
    assert anchor in s
    s = s.replace(anchor, anchor + "    " + snip + "\n", 1)
    open(p, 'w').write(s)
    rep = writeset.analyze(r)
    row = [x for x in rep['rows'] if x['func'] == 'operation.vdot'][0]
    flagged = row['writes'] is None or len(row['writes']) > 0
    ok = flagged == expect
    print('%-24s %-5s expect=%-5s writes=%s %s' % (name, 'ok' if ok else 'FAIL', expect, row['writes'] if row['writes'] is None else [row['params'][k] for k in row['writes']], (row['why'][0][:150] if row['why'] else '')))
    shutil.rmtree(r, ignore_errors=True)
    return ok
bad = [n for n, (s, e) in SNIPS.items() if (not sys.argv[1:] or n in sys.argv[1:]) and not run(n, s, e)]
print('FAILURES:', bad)
