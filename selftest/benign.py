#!/venv/bin/python
"""Run checks against a HARMLESS (property-preserving) change and file it under /verif/benign/<name>/.

usage: benign.py <diff> <notes.txt> <name> --checks=C01,C02,...  [--skip-suite]
A scratch copy of /repo under /var/tmp gets the patch; the suite must pass; every listed check (./check Cxx --no-proof with
VERIF_REPO pointing at the copy) should exit 0.  A non-zero exit is recorded with its VIOLATION line and replay kind: either a
false alarm of the check (to be repaired), or the 'harmless' change is not harmless (then the replay shows the failing input).
"""
import sys, os, json, subprocess, shutil, time, re

def sh(cmd, timeout=3000):
    e = dict(os.environ)
    e.update({'OMP_NUM_THREADS': '1', 'OPENBLAS_NUM_THREADS': '1', 'PYTHONWARNINGS': 'ignore'})
    p = subprocess.run(cmd, shell=True, stdout=subprocess.PIPE, stderr=subprocess.STDOUT, text=True, timeout=timeout, env=e)
    return p.returncode, p.stdout

def main():
    diff, notes, name = sys.argv[1:4]
    checks = []
    for a in sys.argv[4:]:
        if a.startswith('--checks='):
            checks = a.split('=', 1)[1].split(',')
    dst = os.path.join('/verif/benign', name)
    os.makedirs(dst, exist_ok=True)
    if os.path.abspath(diff) != os.path.join(dst, 'patch.diff'):
        shutil.copy(diff, os.path.join(dst, 'patch.diff'))
        if os.path.exists(notes):
            shutil.copy(notes, os.path.join(dst, 'notes.txt'))
    meta_path = os.path.join(dst, 'meta.json')
    meta = json.load(open(meta_path)) if os.path.exists(meta_path) else {}
    scratch = '/var/tmp/ben_%s_%d' % (name, os.getpid())
    shutil.rmtree(scratch, ignore_errors=True)
    sh('cp -r /repo %s && rm -rf %s/.git && cd %s && git init -q && git add -A >/dev/null 2>&1' % (scratch, scratch, scratch))
    try:
        rc, out = sh('cd %s && git apply %s/patch.diff' % (scratch, dst))
        meta['patch_applies'] = rc == 0
        if rc:
            meta['apply_error'] = out[-400:]
        if '--skip-suite' not in sys.argv:
            rc2, out2 = sh('cd %s && PYTHONPATH=%s /venv/bin/python -m pytest -q -p no:cacheprovider test 2>&1 | tail -3' % (scratch, scratch))
            meta['suite_with_patch'] = out2.strip().split('\n')[-1]
        verdicts = meta.get('checks', {})
        for c in checks:
            t0 = time.time()
            rc3, out3 = sh('cd /verif && VERIF_REPO=%s ./check %s --no-proof' % (scratch, c))
            lines = [l for l in out3.split('\n') if l.startswith('VIOLATION')]
            verdicts[c] = {'exit': rc3, 'violation_lines': lines[:3], 'wall_s': round(time.time() - t0)}
            if lines:
                m = re.search(r'replay=(\S+)', lines[0])
                if m and os.path.exists(m.group(1)):
                    d = json.load(open(m.group(1)))
                    verdicts[c]['replay_kind'] = d.get('kind')
                    verdicts[c]['violated'] = str(d.get('violated', d.get('what')))[:600]
                    shutil.copy(m.group(1), os.path.join(dst, 'alarm_%s.json' % c))
        meta['checks'] = verdicts
    finally:
        shutil.rmtree(scratch, ignore_errors=True)
    json.dump(meta, open(meta_path, 'w'), indent=1)
    print(name, meta.get('suite_with_patch'), {c: (v['exit'], v.get('replay_kind')) for c, v in meta['checks'].items() if v['exit']} or 'all quiet')

main()
