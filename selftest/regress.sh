#!/bin/sh
# re-run every seeded change against the check of the property it breaks (no test-suite run); prints the ones NOT reported
cd /verif
ls seeded | xargs -P 6 -I{} sh -c 'p=$(/venv/bin/python -c "import json;print(json.load(open(\"seeded/{}/meta.json\"))[\"breaks_property\"])"); ./selftest/seed.py $p /x {} --checks=$p --skip-suite 2>&1 | tail -1' > /var/tmp/regress.log 2>&1
/venv/bin/python - <<'PY'
import json, glob, os
miss = []
for f in sorted(glob.glob('/verif/seeded/*/meta.json')):
    d = json.load(open(f)); n = os.path.basename(os.path.dirname(f)); p = d['breaks_property']
    v = d.get('checks', {}).get(p, {})
    if not v.get('exit'):
        miss.append((n, p))
print('seeded changes:', len(glob.glob('/verif/seeded/*/meta.json')), 'not reported by their own property check:', miss)
PY
