#!/venv/bin/python
"""Markdown table of all seeded changes and the verdict of every check run against them (from seeded/*/meta.json)."""
import json, glob, os
rows = []
for f in sorted(glob.glob('/verif/seeded/*/meta.json')):
    d = json.load(open(f))
    name = os.path.basename(os.path.dirname(f))
    need = d.get('needs_to_manifest', '').strip().split('\n')
    first = ' '.join(need[:3])[:230].replace('|', '/')
    v = []
    for c, r in sorted(d.get('checks', {}).items()):
        v.append('%s: %s' % (c, ('VIOLATION (%s replay)' % r.get('replay_kind')) if r.get('exit') else 'clean'))
    rows.append('| %s | %s | %s | %s | %s |' % (name, d.get('breaks_property'), 'yes' if d.get('confirmed') else 'NO', '; '.join(v), first))
print('| seeded change | property | confirmed (suite passes, demo fails only with it) | verdicts | what it needs to manifest (from the author\'s notes) |')
print('|---|---|---|---|---|')
print('\n'.join(rows))
