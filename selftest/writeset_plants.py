"""Planted changes for the static write-set analysis (harness/writeset.py): each is applied to a scratch copy of /repo
under /var/tmp/ws_plants and must be reported with its location.  Run: /venv/bin/python selftest/writeset_plants.py"""
import os, shutil, subprocess, sys, re
BASE = '/var/tmp/ws_plants'
def sub(path, old, new, count=1):
    s = open(path).read()
    assert old in s, (path, old)
    s = s.replace(old, new, count)
    open(path, 'w').write(s)
PLANTS = {
 '1_vdot': lambda r: sub(r+'/pytenet/operation.py', "    # initialize T by identity matrix\n    T = np.identity(psi.A[-1].shape[2], dtype=psi.A[-1].dtype)\n    for i in reversed(range(psi.nsites)):\n        T = contraction_step_right(", "    psi.A[0] *= 1\n    T = np.identity(psi.A[-1].shape[2], dtype=psi.A[-1].dtype)\n    for i in reversed(range(psi.nsites)):\n        T = contraction_step_right("),
 '2_addmps_copy': lambda r: sub(r+'/pytenet/mps.py', "        mps.qD[0] = mps0.qD[0].copy()\n        mps.qD[1] = mps0.qD[1].copy()\n        # simply add MPS", "        mps.qD[0] = mps0.qD[0]\n        mps.qD[1] = mps0.qD[1].copy()\n        # simply add MPS"),
 '3_tdvp_H': lambda r: sub(r+'/pytenet/evolution.py', "            BL[i+1] = contraction_operator_step_left(psi.A[i], psi.A[i], H.A[i], BL[i])\n", "            BL[i+1] = contraction_operator_step_left(psi.A[i], psi.A[i], H.A[i], BL[i])\n            H.A[i] = H.A[i] + 0\n"),
 '4_graph_add': lambda r: sub(r+'/pytenet/opgraph.py', "        other = copy.deepcopy(other)\n", ""),
 '5_retained': lambda r: sub(r+'/pytenet/bond_ops.py', "    # normalized squares\n    s = (s / w)**2", "    s /= w\n    s = s**2"),
 '6_deep_helper': lambda r: (sub(r+'/pytenet/operation.py', "def contraction_operator_step_right(A: np.ndarray, B: np.ndarray, W: np.ndarray, R: np.ndarray):", "def _scale(X):\n    Y = X.reshape(-1)\n    _scale2(Y[::2])\n\n\ndef _scale2(Z):\n    Z.fill(0)\n\n\ndef contraction_operator_step_right(A: np.ndarray, B: np.ndarray, W: np.ndarray, R: np.ndarray):"),
                       sub(r+'/pytenet/operation.py', "    assert R.ndim == 3\n    # multiply with A tensor\n    T = np.tensordot(A, R, 1)\n    # multiply with W tensor\n    T = np.tensordot(W, T, axes=((1, 3), (0, 2)))\n    # interchange levels 0 <-> 2 in T", "    assert R.ndim == 3\n    _scale(W.transpose((1, 0, 2, 3)))\n    # multiply with A tensor\n    T = np.tensordot(A, R, 1)\n    # multiply with W tensor\n    T = np.tensordot(W, T, axes=((1, 3), (0, 2)))\n    # interchange levels 0 <-> 2 in T")),
 '7_ctor_asarray': lambda r: sub(r+'/pytenet/mps.py', "        self.qd = np.array(qd)\n        self.qD = [np.array(qDi) for qDi in qD]\n        # create list of MPS tensors\n        d = len(qd)\n        D = [len(qb)", "        self.qd = np.asarray(qd)\n        self.qD = [np.array(qDi) for qDi in qD]\n        # create list of MPS tensors\n        d = len(qd)\n        D = [len(qb)"),
 '8_lambda_mut': lambda r: sub(r+'/pytenet/evolution.py', "        lambda x: apply_local_hamiltonian(L, R, W, x.reshape(A.shape)).reshape(-1),\n            A.reshape(-1), -dt", "        lambda x: W.reshape(-1),\n            A.reshape(-1), -dt"),
 'S1_C19-1': lambda r: subprocess.check_call(['patch', '-p1', '-s', '-d', r, '-i', '/verif/seeded/C19-1/patch.diff']),
 'S2_C19-2': lambda r: subprocess.check_call(['patch', '-p1', '-s', '-d', r, '-i', '/verif/seeded/C19-2/patch.diff']),
}
if __name__ == '__main__':
    which = sys.argv[1:] or sorted(PLANTS)
    os.makedirs(BASE, exist_ok=True)
    for name in which:
        r = os.path.join(BASE, 'repo_' + name)
        shutil.rmtree(r, ignore_errors=True)
        shutil.copytree('/repo', r, ignore=shutil.ignore_patterns('.git', '__pycache__', '*.pyc'))
        PLANTS[name](r)
        out = subprocess.run(['/venv/bin/python', '/verif/harness/writeset.py', r], capture_output=True, text=True).stdout
        i = out.index('violations:')
        print('=====', name)
        print(out[i:out.index('notes:')])
        shutil.rmtree(r, ignore_errors=True)
