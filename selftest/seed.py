#!/venv/bin/python
"""Confirm a sub-agent's seeded change and file it under /verif/seeded/<name>/.

usage: seed.py <property> <src_dir containing patch.diff demo.py notes.txt> <name> [--checks C01,C13] [--skip-suite]
Steps (all in a scratch copy of /repo under /var/tmp, removed afterwards):
  1. demo.py passes on the unmodified tree
  2. patch applies; the existing test-suite still passes; demo.py fails
  3. optionally run ./check <id> --no-proof for each listed property against the patched copy and record the verdicts
"""
import sys, os, json, subprocess, shutil, time, re

def sh(cmd, timeout=3000, env=None):
    e = dict(os.environ); e.update(env or {})
    e.update({'OMP_NUM_THREADS': '1', 'OPENBLAS_NUM_THREADS': '1', 'PYTHONWARNINGS': 'ignore'})
    p = subprocess.run(cmd, shell=True, stdout=subprocess.PIPE, stderr=subprocess.STDOUT, text=True, timeout=timeout, env=e)
    return p.returncode, p.stdout

def main():
    prop, src, name = sys.argv[1:4]
    checks = []
    skip_suite = '--skip-suite' in sys.argv
    for a in sys.argv[4:]:
        if a.startswith('--checks='):
            checks = a.split('=', 1)[1].split(',')
    dst = os.path.join('/verif/seeded', name)
    os.makedirs(dst, exist_ok=True)
    for f in ('patch.diff', 'demo.py', 'notes.txt'):
        if os.path.exists(os.path.join(src, f)):
            shutil.copy(os.path.join(src, f), os.path.join(dst, f))
    meta_path = os.path.join(dst, 'meta.json')
    meta = json.load(open(meta_path)) if os.path.exists(meta_path) else {}
    meta.update({'breaks_property': prop, 'source': 'independent sub-agent given only the property text and a scratch worktree'})
    notes = open(os.path.join(dst, 'notes.txt')).read() if os.path.exists(os.path.join(dst, 'notes.txt')) else ''
    meta['needs_to_manifest'] = notes[:1500]
    scratch = '/var/tmp/seed_%s_%d' % (name, os.getpid())
    shutil.rmtree(scratch, ignore_errors=True)
    sh('git -C /repo worktree prune; cp -r /repo %s && rm -rf %s/.git && cd %s && git init -q && git add -A >/dev/null 2>&1' % (scratch, scratch, scratch))
    try:
        rc0, out0 = sh('cd %s && PYTENET_TREE=%s PYTHONPATH=%s /venv/bin/python %s/demo.py' % (scratch, scratch, scratch, dst), 900)
        meta['demo_unpatched_rc'] = rc0
        rc, out = sh('cd %s && git apply %s/patch.diff' % (scratch, dst))
        meta['patch_applies'] = (rc == 0)
        if rc != 0:
            meta['apply_error'] = out[-500:]
        rc1, out1 = sh('cd %s && PYTENET_TREE=%s PYTHONPATH=%s /venv/bin/python %s/demo.py' % (scratch, scratch, scratch, dst), 900)
        meta['demo_patched_rc'] = rc1
        meta['demo_patched_tail'] = out1.strip()[-300:]
        if not skip_suite:
            for _attempt in range(2):
                rc2, out2 = sh('cd %s && PYTHONPATH=%s /venv/bin/python -m pytest -q -p no:cacheprovider test 2>&1 | tail -8' % (scratch, scratch), 3000)
                failed = re.findall(r'FAILED (\S+)', out2)
                meta['suite_failed_tests'] = failed
                # test_krylov::test_eigh_krylov draws unseeded instances and fails now and then on the unmodified tree: one more try
                if not (failed and all('test_eigh_krylov' in f for f in failed)):
                    break
            m = re.search(r'(\d+) passed', out2)
            meta['suite_with_patch'] = out2.strip().split('\n')[-1]
            meta['suite_passed'] = bool(m) and 'failed' not in out2
        verdicts = meta.get('checks', {})
        for c in checks:
            t0 = time.time()
            rc3, out3 = sh('cd /verif && VERIF_REPO=%s ./check %s --no-proof' % (scratch, c), 3000)
            lines = [l for l in out3.split('\n') if l.startswith('VIOLATION')]
            verdicts[c] = {'exit': rc3, 'violation_lines': lines[:3], 'wall_s': round(time.time() - t0)}
            # keep one replay summary
            if lines:
                m = re.search(r'replay=(\S+)', lines[0])
                if m and os.path.exists(m.group(1)):
                    d = json.load(open(m.group(1)))
                    verdicts[c]['replay_kind'] = d.get('kind')
                    verdicts[c]['violated'] = d.get('violated', d.get('what'))
        meta['checks'] = verdicts
        meta['confirmed'] = bool(meta.get('demo_unpatched_rc') == 0 and meta.get('patch_applies') and meta.get('demo_patched_rc') != 0
                                 and (skip_suite and meta.get('suite_passed', True) or meta.get('suite_passed')))
    finally:
        shutil.rmtree(scratch, ignore_errors=True)
        shutil.rmtree('/verif/replays', ignore_errors=True)
    meta['what_i_ran'] = ('scratch copy of /repo; demo.py without and with patch; pytest -q test with patch; '
                          './check <id> --no-proof with VERIF_REPO pointing at the patched copy')
    json.dump(meta, open(meta_path, 'w'), indent=1)
    print(name, 'confirmed' if meta['confirmed'] else 'NOT CONFIRMED',
          {k: v for k, v in meta.items() if k in ('demo_unpatched_rc', 'demo_patched_rc', 'suite_with_patch')},
          {c: (v['exit'], v.get('replay_kind')) for c, v in meta.get('checks', {}).items()})

main()
